"""Implementation adapter for C12: same line protocol as ocaml/c12_driver.ml (without the leading flag token),
answers from the public API of bitcoinlib.keys / bitcoinlib.networks."""
import sys, os, logging
sys.path.insert(0, os.path.dirname(os.path.abspath(__file__)))
from common_impl import hx, unhx, serve
logging.disable(logging.CRITICAL)
from bitcoinlib.keys import Key, HDKey, BKeyError, get_key_format
from bitcoinlib.networks import Network, NetworkError, wif_prefix_search, network_by_value
from bitcoinlib.encoding import EncodingError


def tf(s):
    return {'t': True, 'f': False}[s]


def otf(s):
    return None if s == 'n' else tf(s)


def oname(s):
    return None if s == '-' else s


def b01(b):
    return '1' if b else '0'


def key_of_tok(t):
    k, body = t[0], t[2:]
    if k == 'i':
        return int(body)
    if k == 'b':
        return unhx(body)
    if k == 's':
        return unhx(body).decode('latin-1')
    raise ValueError('keytok')


def names(l):
    return '[]' if not l else ','.join(l)


def err_tok(e):
    if isinstance(e, BKeyError):
        m = str(e.msg if hasattr(e, 'msg') else e)
        if 'multiple networks found' in m:
            return 'ERR ambiguous'
        return 'ERR key'
    if isinstance(e, NetworkError):
        return 'ERR network'
    return 'ERR other'


def gkf(key, ip):
    try:
        d = get_key_format(key, ip) if ip is not None else get_key_format(key)
    except BKeyError as e:
        m = str(e.msg if hasattr(e, 'msg') else e)
        if 'Key empty' in m:
            return 'ERR empty'
        if 'Cannot determine if key is private or public' in m:
            return 'ERR ambiguous'
        if 'Unrecognised key format' in m:
            return 'NOKEY'
        return 'ERR key'
    except Exception as e:
        return 'CRASH ' + type(e).__name__
    if d['format'] == 'address':
        return 'NOKEY'
    nets = d['networks']
    return 'OK fmt=%s nets=%s priv=%s scripts=%s wits=%s ms=%s' % (
        d['format'], 'None' if nets is None else names(nets), b01(d['is_private']), names(d['script_types']),
        names(d['witness_types']), '[]' if not d['multisig'] else ','.join(b01(x) for x in d['multisig']))


def ko_s(k):
    kb = k.private_byte if k.is_private else k.public_byte
    return 'priv=%s key=%s comp=%s net=%s fmt=%s' % (b01(k.is_private), hx(kb), b01(k.compressed), k.network.name,
                                                     k.key_format)


def hd_s(h):
    return 'OK %s chain=%s depth=%d fp=%s child=%d wt=%s ms=%s' % (
        ko_s(h), hx(h.chain), h.depth, hx(h.parent_fingerprint), h.child_index, h.witness_type, b01(h.multisig))


def do_import(via, text, args):
    try:
        if via == 'key':
            hint, comp, ip = args
            return 'OK ' + ko_s(Key(text, network=oname(hint), compressed=tf(comp), is_private=otf(ip)))
        if via == 'hdkey':
            hint, wt, ms, comp = args
            return hd_s(HDKey(text, network=oname(hint), witness_type=oname(wt), multisig=tf(ms), compressed=tf(comp)))
        if via == 'fromwif':
            hint, ms, comp = args
            return hd_s(HDKey.from_wif(text, network=oname(hint), multisig=otf(ms), compressed=tf(comp)))
    except Exception as e:
        return err_tok(e)
    return 'BADREQ'


def build(toks):
    """the exporting object from the 12 keymeta tokens (public constructors only)"""
    priv, secret, pubc, pubu, comp, chain, depth, fp, child, net, wt, ms = toks
    priv, comp, ms = tf(priv), tf(comp), tf(ms)
    if priv:
        key = unhx(secret)
    else:
        key = unhx(pubc) if comp else unhx(pubu)
    return HDKey(key=key, chain=unhx(chain), depth=int(depth), parent_fingerprint=unhx(fp), child_index=int(child),
                 is_private=priv, network=net, witness_type=wt, multisig=ms, compressed=comp)


def pref_of(tok):
    """explicit version bytes: '-' None | 'e' b'' | b<hex> bytes | s<hex text> str"""
    if tok == '-':
        return None
    if tok == 'e':
        return b''
    if tok[0] == 'b':
        return bytes.fromhex(tok[1:])
    if tok[0] == 's':
        return tok[1:]
    raise ValueError('prefix token')


def wt_of(tok):
    return None if tok == '-' else ('' if tok == 'e' else tok)


def typed(v):
    if v is None:
        return 'None'
    if isinstance(v, bool):
        return 'bool'
    if isinstance(v, int):
        return 'i:%d' % v
    if isinstance(v, (bytes, bytearray)):
        return 'b:' + hx(bytes(v))
    if isinstance(v, str):
        return 's:' + hx(v.encode('latin-1'))
    return 'other:' + type(v).__name__


def fields(obj, hd):
    return 'p=%s c=%s net=%s child=%s' % (b01(obj.is_private), b01(obj.compressed), obj.network.name,
                                          ('%d' % obj.child_index) if hd else '-')


def seq(t):
    """seq <K|KW|H|HW> <12 keymeta tokens> <op> ... : every call on ONE object, in this process, in order"""
    mode, m, ops = t[1], t[2:14], t[14:]
    hd = mode[0] == 'H'
    try:
        if hd:
            obj = build(m)
            if mode == 'HW':
                obj = HDKey(obj.wif_key(), network=m[9], witness_type=m[10], multisig=tf(m[11]))
        else:
            raw = unhx(m[1]) if tf(m[0]) else (unhx(m[2]) if tf(m[4]) else unhx(m[3]))
            obj = Key(raw, network=m[9], compressed=tf(m[4]), is_private=tf(m[0]))
            if mode == 'KW':
                obj = Key(obj.wif(), network=m[9])
    except Exception as e:
        return 'BUILD ' + err_tok(e)
    out = []
    for op in ops:
        f = op.split(':')
        try:
            body = seq_op(obj, hd, f)
            if isinstance(body, tuple):         # public(): the object is replaced
                obj, body = body
        except Exception as e:
            body = err_tok(e)
        out.append('%s # %s' % (body, fields(obj, hd)))
    return ' || '.join(out)


def reimport(obj, hd, text, mode, xkey=False):
    if mode == 'x':
        return '-'
    hint = obj.network.name if mode == 'h' else '-'
    if hd or xkey:
        return do_import('hdkey', text, [hint, '-', 'f', 't'])
    return do_import('key', text, [hint, 't', 'n'])


def seq_op(obj, hd, f):
    k = f[0]
    if k == 'wif':
        w = obj.wif_key(pref_of(f[1])) if hd else obj.wif(pref_of(f[1]))
        return 'X=%s | %s | %s' % (w, gkf(w, None), reimport(obj, hd, w, f[2]))
    if k in ('x', 'xprv', 'xpub'):
        if k == 'x':
            child = None if f[2] == '-' else int(f[2])
            w = obj.wif(is_private=otf(f[1]), child_index=child, prefix=pref_of(f[3]), witness_type=wt_of(f[4]),
                        multisig=otf(f[5]))
            imp = f[6]
        else:
            fn = obj.wif_private if k == 'xprv' else obj.wif_public
            w = fn(prefix=pref_of(f[1]), witness_type=wt_of(f[2]), multisig=otf(f[3]))
            imp = f[4]
        return 'X=%s | %s | %s' % (w, gkf(w, None), reimport(obj, hd, w, imp, xkey=True))
    if k == 'net':
        obj.network_change(f[1])
        return 'OK'
    if k == 'public':
        return obj.public(), 'OK'
    if k == 'addr':
        try:
            a = obj.address(compressed=otf(f[1]), prefix=pref_of(f[2]))
        except Exception as e:
            a = err_tok(e).replace(' ', '_')
        return 'A comp=%s a=%s' % (b01(obj.compressed), a)
    if k in ('hex', 'bytes', 'int'):
        if k == 'hex':
            v = obj.as_hex(private=tf(f[1]))
        elif k == 'bytes':
            v = obj.as_bytes(private=tf(f[1]))
        else:
            v = obj.__int__()
        imp = f[-1]
        if v is None or imp == 'x':
            r = '-'
        else:
            try:
                r = 'OK ' + ko_s(Key(v, network=obj.network.name, compressed=obj.compressed))
            except Exception as e:
                r = err_tok(e)
        return 'R=%s | %s' % (typed(v), r)
    if k == 'enc':
        pw = unhx(f[1]).decode('latin-1')
        e = obj.encrypt(pw)
        d = '-'
        if f[2] == 'd':
            try:
                k2 = Key(e, password=pw, network=obj.network.name)
                d = 'OK ' + ko_s(k2)
            except Exception as ex:
                d = err_tok(ex)
        return 'ENC e=%s g=%s d=%s' % (e, gkf(e, None).replace(' ', ','), d.replace(' ', ','))
    if k == 'dict':
        d = obj.as_dict(include_private=tf(f[1]))
        keys = ('network', 'compressed', 'is_private', 'private_hex', 'secret', 'wif', 'public_hex', 'child_index', 'depth',
                'extended_wif_public', 'extended_wif_private', 'chain_code', 'fingerprint_parent')
        return 'D ' + ' '.join('%s=%s' % (x, d[x]) for x in keys if x in d)
    if k == 'repr':
        return 'P ' + repr(obj).replace(' ', '')
    return 'BADOP'


def pub_fields(k):
    """every public export of a key object, each read defensively"""
    def g(f):
        try:
            v = f()
            return hx(v) if isinstance(v, bytes) else str(v)
        except Exception as e:
            return err_tok(e).replace(' ', '_')
    return 'ph=%s pch=%s puh=%s pb=%s pcb=%s pub=%s x=%s y=%s comp=%s priv=%s' % (
        g(lambda: k.public_hex), g(lambda: k.public_compressed_hex), g(lambda: k.public_uncompressed_hex),
        g(lambda: k.public_byte), g(lambda: k.public_compressed_byte), g(lambda: k.public_uncompressed_byte),
        g(lambda: '%x' % k.x), g(lambda: '%x' % k.y), b01(k.compressed), b01(k.is_private))


def pubrt(t):
    """pubrt <form> <pubc hex> <pubu hex> <order>: import a PUBLIC key in one form, read every public export (in the given
    order: c = compressed first, u = uncompressed first), import every exported text / bytes again"""
    form, pubc, pubu, order = t[1:5]
    pubc, pubu = unhx(pubc), unhx(pubu)
    try:
        if form == 'ch':
            k = Key(pubc.hex())
        elif form == 'cb':
            k = Key(pubc)
        elif form == 'uh':
            k = Key(pubu.hex())
        elif form == 'ub':
            k = Key(pubu)
        elif form == 'hch':
            k = HDKey(pubc.hex())
        elif form == 'hcb':
            k = HDKey(pubc)
        elif form == 'hub':
            k = HDKey(pubu, compressed=False)
        elif form == 'pt':
            k = Key((int.from_bytes(pubu[1:33], 'big'), int.from_bytes(pubu[33:], 'big')))
        elif form in ('xpub', 'xpubw'):
            h0 = HDKey(pubc, chain=b'\x21' * 32, depth=3, child_index=7, parent_fingerprint=b'\1\2\3\4', witness_type='legacy')
            w = h0.wif_public()
            k = HDKey(w) if form == 'xpub' else HDKey.from_wif(w)
        else:
            return 'BADREQ'
    except Exception as e:
        return 'IMPORT ' + err_tok(e)
    if order == 'u':
        try:
            k.public_uncompressed_hex
        except Exception:
            pass
    first = pub_fields(k)
    res = []
    for name, f in (('pch', lambda: k.public_compressed_hex), ('puh', lambda: k.public_uncompressed_hex),
                    ('pcb', lambda: k.public_compressed_byte), ('pub', lambda: k.public_uncompressed_byte),
                    ('ph', lambda: k.public_hex), ('pb', lambda: k.public_byte)):
        try:
            v = f()
            k2 = HDKey(v, compressed=len(v) in (33, 66)) if form.startswith(('h', 'x')) and name in ('pch', 'pcb') else Key(v)
            res.append('%s:%s/%s' % (name, hx(k2.public_compressed_byte), hx(k2.public_uncompressed_byte)))
        except Exception as e:
            res.append('%s:%s' % (name, err_tok(e).replace(' ', '_')))
    try:
        au = k.address_uncompressed(encoding='base58', script_type='p2pkh')
    except Exception as e:
        au = err_tok(e).replace(' ', '_')
    return 'PUB %s | %s | au=%s' % (first, ' '.join(res), au)


def bip38rt(t):
    """bip38rt <exporter K|H|F> <net> <secret hex> <compressed t|f> <password hex> <vias> [<frozen text> when F]: encrypt once, import the BIP38 text
    through every entry point named in vias (k = Key, h = HDKey, f = bip38_decrypt, n = Key without network=)"""
    from bitcoinlib.keys import bip38_decrypt
    exporter, net, sec, comp, pw, vias = t[1:7]
    pw = unhx(pw).decode('latin-1')
    try:
        if exporter == 'F':                       # a FROZEN text (corpus/C12, reference encryptor): nothing is exported here
            e = t[7]
        elif exporter == 'H':
            src = HDKey(unhx(sec), network=net, compressed=tf(comp), witness_type='legacy')
            e = src.encrypt(pw)
        else:
            src = Key(unhx(sec), network=net, compressed=tf(comp))
            e = src.encrypt(pw)
    except Exception as ex:
        return 'EXPORT ' + err_tok(ex)
    out = ['E=%s' % e]
    for v in vias:
        try:
            if v == 'k':
                k = Key(e, password=pw, network=net)
            elif v == 'n':
                k = Key(e, password=pw)
            elif v == 'h':
                k = HDKey(e, password=pw, network=net, witness_type='legacy')
            elif v == 'f':
                priv, ah, c, _ = bip38_decrypt(e, pw)
                out.append('f:sec=%s,comp=%s' % (hx(priv), b01(c)))
                continue
            else:
                out.append(v + ':BADVIA')
                continue
            try:
                w = k.wif_key() if v == 'h' else k.wif()
            except Exception as ex:
                w = err_tok(ex).replace(' ', '_')
            out.append('%s:sec=%s,comp=%s,pub=%s,net=%s,wif=%s' % (v, hx(k.private_byte), b01(k.compressed), k.public_hex, k.network.name, w))
        except Exception as ex:
            out.append('%s:%s' % (v, err_tok(ex).replace(' ', '_')))
    return ' '.join(out)


def dispatch(t):
    k = t[0]
    if k == 'pubrt':
        return pubrt(t)
    if k == 'bip38rt':
        return bip38rt(t)
    if k == 'seq':
        return seq(t)
    if k == 'gkf':
        return gkf(key_of_tok(t[1]), otf(t[2]))
    if k == 'wps':
        l = wif_prefix_search(unhx(t[1]).hex(), witness_type=oname(t[2]), multisig=otf(t[3]), network=oname(t[4]))
        return '-' if not l else ';'.join('%s/%s/%s/%s/%s/%s' % (m['network'], b01(m['is_private']), m['witness_type'],
                                                                  b01(m['multisig']), m['script_type'], m['prefix_str'])
                                          for m in l)
    if k == 'nbw':
        return names(network_by_value('prefix_wif', unhx(t[1]).hex()))
    if k == 'prefix':
        try:
            return hx(Network(t[1]).wif_prefix(is_private=tf(t[2]), witness_type=t[3], multisig=tf(t[4])))
        except Exception as e:
            return err_tok(e)
    if k == 'key':
        try:
            return 'OK ' + ko_s(Key(key_of_tok(t[1]), network=oname(t[2]), compressed=tf(t[3]), is_private=otf(t[4])))
        except Exception as e:
            return err_tok(e)
    if k == 'hdkey':
        try:
            return hd_s(HDKey(key_of_tok(t[1]), network=oname(t[2]), witness_type=oname(t[3]), multisig=tf(t[4]),
                              compressed=tf(t[5])))
        except Exception as e:
            return err_tok(e)
    if k == 'fromwif':
        return do_import('fromwif', unhx(t[1]).decode('latin-1'), t[2:])
    if k in ('rtwif', 'rtx'):
        off = 1 if k == 'rtwif' else 2
        try:
            if k == 'rtwif' and t[off + 5] == '-':        # exported by a plain Key
                m = t[off:off + 12]
                raw = unhx(m[1]) if tf(m[0]) else (unhx(m[2]) if tf(m[4]) else unhx(m[3]))
                obj = Key(raw, network=m[9], compressed=tf(m[4]), is_private=tf(m[0]))
                w = obj.wif()
            elif k == 'rtwif':
                obj = build(t[off:off + 12])
                w = obj.wif_key()
            elif t[1] == 'prv':
                obj = build(t[off:off + 12])
                w = obj.wif_private()
            elif t[1] == 'pub':
                obj = build(t[off:off + 12])
                w = obj.wif_public()
            else:
                obj = build(t[off:off + 12])
                w = obj.wif()
        except Exception as e:
            return 'EXPORT ' + err_tok(e)
        rest = t[off + 12:]
        return 'X=%s | %s | %s' % (w, gkf(w, None), do_import(rest[0], w, rest[1:]))
    return 'BADREQ'


serve(dispatch)
