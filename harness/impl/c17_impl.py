"""Implementation adapter for C17: same line protocol as ocaml/c17_driver.ml, answers from /repo.
Strings travel as hex of their UTF-8 encoding ('-' = empty); floats as float.hex()."""
import sys, os, logging, hashlib, json, copy
sys.path.insert(0, os.path.dirname(os.path.abspath(__file__)))
from common_impl import serve
logging.disable(logging.CRITICAL)
from bitcoinlib.values import Value, value_to_satoshi
from bitcoinlib.networks import NETWORK_DEFINITIONS, DEFAULT_NETWORK
from bitcoinlib.config.config import NETWORK_DENOMINATORS
from bitcoinlib.transactions import Output, Input, Transaction
from bitcoinlib.keys import Key

SIDE = {}          # txs request line -> [[vsize before, vsize after] per operation] (sizes are inputs of the model)


def s_of(h):
    return '' if h == '-' else bytes.fromhex(h).decode('utf8')


def h_of(s):
    return s.encode('utf8').hex() if s else '-'


def fhex(x):
    return float(x).hex()


def dspec(t):
    if t == '-':
        return None
    if t == 'a':
        return 'auto'
    if t.startswith('s:'):
        return s_of(t[2:])
    if t.startswith('f:'):
        return float.fromhex(t[2:])
    raise RuntimeError('dspec')


def num_of(t):
    k, body = t[0], t[2:]
    if k == 'i':
        return int(body)
    if k == 'f':
        return float.fromhex(body)
    if k == 's':
        return s_of(body)
    raise RuntimeError('num')


def tok_of_num(v):
    if isinstance(v, bool):
        return '?bool'
    if isinstance(v, int):
        return 'i:%d' % v
    if isinstance(v, float):
        return 'f:' + v.hex()
    return '?' + type(v).__name__


def show_value(v):
    try:
        sat = str(v.value_sat)
        if not isinstance(v.value_sat, int):
            sat = '?' + type(v.value_sat).__name__
    except Exception:
        sat = 'ERR'
    return '%s %s %s %s' % (fhex(v.value), fhex(v.denominator), h_of(v.network.name), sat)


LOCK = b'\x51'


def raw_value_bytes(t):
    """the eight value bytes of output 0 as written by Transaction.raw() (legacy layout, no inputs)"""
    try:
        r = t.raw()
    except Exception:
        return 'ERR'
    # version(4) | n_in = 00 | n_out = 01 | value(8) | ...
    if t.witness_type == 'segwit' and r[4:6] == b'\x00\x01':
        r = r[:4] + r[6:]
    if r[4:6] != b'\x00\x01':
        return '?layout'
    return r[6:14].hex()


def dispatch(t):
    k = t[0]
    try:
        if k == 'tables':
            return 'default=%s nets=%s dens=%s' % (
                h_of(DEFAULT_NETWORK),
                ','.join('%s:%s:%s' % (h_of(n), h_of(d['currency_code']), fhex(d['denominator']))
                         for n, d in NETWORK_DEFINITIONS.items()),
                ','.join('%s:%s' % (fhex(d), h_of(s)) for d, s in NETWORK_DENOMINATORS.items()))
        if k == 'vts':
            net = s_of(t[2]) if t[2] != '-' else None
            r = value_to_satoshi(s_of(t[1]), network=net) if net else value_to_satoshi(s_of(t[1]))
            return str(r) if isinstance(r, int) and not isinstance(r, bool) else '?' + type(r).__name__
        if k == 'val':
            return show_value(Value(s_of(t[1]), network=s_of(t[2])))
        if k == 'fromsat':
            return show_value(Value.from_satoshi(int(t[1]), dspec(t[2]), network=s_of(t[3])))
        if k == 'str':
            v = Value.from_satoshi(int(t[1]), dspec(t[2]), network=s_of(t[5]))
            return h_of(v.str(dspec(t[3]), None if t[4] == '-' else int(t[4])))
        if k == 'strv':
            v = Value(s_of(t[1]), network=s_of(t[4]))
            return h_of(v.str(dspec(t[2]), None if t[3] == '-' else int(t[3])))
        if k == 'rt':
            s = Value.from_satoshi(int(t[1]), network=s_of(t[3])).str(dspec(t[2]))
            try:
                back = str(value_to_satoshi(s))
            except Exception:
                back = 'ERR'
            return h_of(s) + ' ' + back
        if k == 'tobytes':
            return Value(s_of(t[1]), network=s_of(t[2])).to_bytes().hex()
        if k == 'arith':
            a, b, n = Value(s_of(t[2])), Value(s_of(t[3])), int(t[4])
            if t[1] == 'add':
                return show_value(a + b)
            if t[1] == 'sub':
                return show_value(a - b)
            if t[1] == 'mul':
                return show_value(a * n)
            if t[1] == 'div':
                return show_value(a / n)
            return 'BADREQ'
        if k == 'pyfloat':
            return float(s_of(t[1])).hex()
        if k == 'pyround':
            x = float.fromhex(t[1])
            return str(round(x)) if t[2] == '-' else round(x, int(t[2])).hex()
        if k == 'pyfmt':
            return h_of('%.*f' % (int(t[2]), float.fromhex(t[1])))
        if k == 'pyfloatint':
            return float(int(t[1])).hex()
        if k == 'output':
            return tok_of_num(Output(value=num_of(t[1]), lock_script=LOCK, network=s_of(t[2])).value)
        if k == 'addout':
            tx = Transaction(network=s_of(t[2]))
            tx.add_output(num_of(t[1]), lock_script=LOCK)
            return tok_of_num(tx.outputs[0].value) + ' ' + raw_value_bytes(tx)
        if k == 'outraw':
            net = s_of(t[2])
            o = Output(value=num_of(t[1]), lock_script=LOCK, network=net)
            try:
                tx = Transaction(outputs=[o], network=net)      # the constructor itself calls raw() (txid)
            except Exception:
                return tok_of_num(o.value) + ' ERR'
            return tok_of_num(o.value) + ' ' + raw_value_bytes(tx)
        if k == 'seq':
            return in_child(lambda: run_seq(t[1:]))
        if k == 'vobj':
            return in_child(lambda: run_vobj(t[1], t[2:]))
        if k == 'txs':
            r, side = in_child(lambda: run_txs(t), with_side=True)
            if side is not None:
                SIDE[' '.join(t)] = side
            return r
        if k == 'wtx':
            wallet_template(t[1])
            return in_child(lambda: run_wtx(t))
    except RecursionError:
        raise
    except Exception:
        return 'ERR'
    return 'BADREQ'


# ---------------------------------------------------------------- sessions
def in_child(fn, with_side=False):
    """run one session in a forked child: it starts from the state of the freshly imported library (sessions come first
    in every run) and leaves nothing behind, so a replay of the single request sees exactly the same process state"""
    rd, wr = os.pipe()
    pid = os.fork()
    if pid == 0:
        try:
            os.close(rd)
            try:
                res = fn()
            except RecursionError:
                res = 'CRASH recursion'
            except Exception as e:
                res = 'CRASH %s' % type(e).__name__
            if not with_side:
                res = (res, None)
            with os.fdopen(wr, 'w') as f:
                json.dump(res, f)
        finally:
            os._exit(0)
    os.close(wr)
    with os.fdopen(rd) as f:
        data = f.read()
    os.waitpid(pid, 0)
    try:
        res, side = json.loads(data)
    except Exception:
        res, side = 'CRASH child', None
    return (res, side) if with_side else res


def run_seq(toks):
    steps, cur = [], []
    for x in toks:
        if x == '|':
            steps.append(cur)
            cur = []
        else:
            cur.append(x)
    steps.append(cur)
    outs = []
    for st in steps:
        if st and st[0] == '!':
            st = st[1:]
        outs.append(dispatch(st) if st else 'BADREQ')
    return ' | '.join(outs)


def run_vobj(init, ops):
    f = init.split(',')
    try:
        if f[0] == 'S':
            v = Value(s_of(f[1]), network=s_of(f[2]))
        else:
            v = Value.from_satoshi(int(f[1]), dspec(f[2]), network=s_of(f[3]))
    except Exception:
        return 'ERR'
    outs = ['OK']
    for op in ops:
        o = op.split(',')
        try:
            if o[0] == 'sat':
                r = v.value_sat
                a = str(r) if isinstance(r, int) and not isinstance(r, bool) else '?' + type(r).__name__
            elif o[0] == 'str':
                a = h_of(v.str(dspec(o[1]), None if o[2] == '-' else int(o[2])))
            elif o[0] == 'bytes':
                a = v.to_bytes().hex()
            elif o[0] == 'add':
                v = v + Value(s_of(o[1]))
                a = show_value(v)
            elif o[0] == 'iadd':
                v += Value(s_of(o[1]))
                a = show_value(v)
            elif o[0] == 'sub':
                v = v - Value(s_of(o[1]))
                a = show_value(v)
            elif o[0] == 'isub':
                v -= Value(s_of(o[1]))
                a = show_value(v)
            elif o[0] == 'mul':
                v = v * int(o[1])
                a = show_value(v)
            elif o[0] == 'div':
                v = v / int(o[1])
                a = show_value(v)
            elif o[0] == 'addk':              # result shown and dropped: v stays the old object
                a = show_value(v + Value(s_of(o[1])))
            elif o[0] == 'subk':
                a = show_value(v - Value(s_of(o[1])))
            elif o[0] == 'mulk':
                a = show_value(v * int(o[1]))
            elif o[0] == 'divk':
                a = show_value(v / int(o[1]))
            else:
                a = 'BADREQ'
        except Exception:
            a = 'ERR'
        outs.append(a)
    return ' | '.join(outs)


# ---------------------------------------------------------------- one Transaction object, amount-changing operations
TX_ERRS = [("Not enough unspent inputs found", 'bumpnoinput'), ("Current transaction fee is zero", 'bumpzerofee'), ("Fee cannot be less than minimal required fee", 'bumpfeelow'),
           ("Extra fee cannot be less", 'bumpextralow'), ("Not enough unspent outputs to bump", 'bumpnochange'),
           ("Output value < 0 not allowed", 'badvalue'), ("fee_per_kb is not set", 'norate')]
WT = {'L': 'legacy', 'S': 'segwit'}


def out_hash(i):
    return hashlib.sha256(b'c17-out-%d' % i).digest()[:20]


def amount_tok(v):
    if v is None:
        return 'N'
    return tok_of_num(v)


def tx_snapshot(t, idx_of):
    outs = []
    for o in t.outputs:
        i = idx_of.get(bytes(o.public_hash), '?')
        outs.append('%s:%s:%d' % (i, amount_tok(o.value), 1 if o.change else 0))
    try:
        raw = t.raw_hex()
    except Exception:
        raw = 'ERR'
    return 'fee=%s fpk=%s out=%s in=%s vsa=%s raw=%s' % (
        amount_tok(t.fee), amount_tok(t.fee_per_kb), ','.join(outs) or '-',
        ','.join(amount_tok(i.value) for i in t.inputs) or '-', amount_tok(t.vsize), raw)


def working_vsize(t):
    """the vsize bumpfee / calculate_fee work with: the attribute, or what estimate_size() would set it to"""
    if t.vsize:
        return int(t.vsize)
    try:
        c = copy.deepcopy(t)
        c.estimate_size()
        return int(c.vsize)
    except Exception:
        return 0


def run_txs(t):
    # txs <hexnet> <L|S> <S|U> <in values> <out value:change,...> <op>...
    net, wt, mode = s_of(t[1]), WT[t[2]], t[3]
    side = []
    try:
        ins = [int(x) for x in t[4].split(',')] if t[4] != '-' else []
        outs = [(int(x.split(':')[0]), x.split(':')[1] == '1') for x in t[5].split(',')] if t[5] != '-' else []
        keys = [Key(hashlib.sha256(b'c17-key-%d' % i).digest(), network=net) for i in range(len(ins))]
        inputs = [Input(hashlib.sha256(b'c17-prev-%d' % i).digest(), i, keys=keys[i], value=v, witness_type=wt, network=net)
                  for i, v in enumerate(ins)]
        idx_of = {}
        outputs = []
        for i, (v, c) in enumerate(outs):
            idx_of[out_hash(i)] = i
            outputs.append(Output(v, public_hash=out_hash(i), network=net, change=c, witness_type=wt))
        tx = Transaction(inputs, outputs, network=net, witness_type=wt)
    except Exception:
        return 'ERR ctor', None
    nxt = len(outs)
    res = []
    if mode == 'S':
        try:
            tx.sign_and_update()
            r = 'OK'
        except Exception as e:
            r = 'ERR ' + tx_err(e)
        side.append([0, int(tx.vsize or 0)])
    else:
        r = 'OK'
        side.append([0, 0])
    res.append(r + ' ' + tx_snapshot(tx, idx_of))
    for op in t[6:]:
        o = op.split(',')
        pre = working_vsize(tx) if o[0] in ('b', 'c') else int(tx.vsize or 0)
        try:
            if o[0] == 'b':
                tx.bumpfee(fee=int(o[1]), extra_fee=int(o[2]))
                r = 'OK'
            elif o[0] == 'a':
                idx_of[out_hash(nxt)] = nxt
                tx.add_output(num_of(o[1]), public_hash=out_hash(nxt), change=(o[2] == '1'))
                nxt += 1
                r = 'OK'
            elif o[0] == 'av':
                idx_of[out_hash(nxt)] = nxt
                tx.add_output(Value(s_of(o[1]), network=net), public_hash=out_hash(nxt), change=(o[2] == '1'))
                nxt += 1
                r = 'OK'
            elif o[0] == 'u':
                tx.update_totals()
                r = 'OK'
            elif o[0] == 's':
                tx.sign_and_update()
                r = 'OK'
            elif o[0] == 'e':
                r = 'OK r=%s' % amount_tok(tx.estimate_size(number_of_change_outputs=int(o[1])))
            elif o[0] == 'c':
                tx.fee_per_kb = int(o[1])
                r = 'OK r=%s' % amount_tok(tx.calculate_fee())
            else:
                r = 'BADREQ'
        except Exception as e:
            r = 'ERR ' + (tx_err(e) if o[0] not in ('a', 'av') else 'addout')
        side.append([pre, int(tx.vsize or 0)])
        res.append(r + ' ' + tx_snapshot(tx, idx_of))
    return ' | '.join(res), side


def tx_err(e):
    m = str(e)
    for pat, tok in TX_ERRS:
        if pat in m:
            return tok
    if isinstance(e, OverflowError):
        return 'badvalue'
    return 'other:' + type(e).__name__


# ---------------------------------------------------------------- wallet level (oracle only; the model of these is C07)
TEMPLATES = {}


class StubService:
    """no network: fee estimates come from the request"""
    fpk = 10000

    def __init__(self, *a, **k):
        self.errors, self.results, self.complete, self.resultcount = {}, {}, True, 1

    def estimatefee(self, blocks=3, priority=''):
        return StubService.fpk

    def blockcount(self):
        return 800000

    def sendrawtransaction(self, raw):
        return False


def wallet_template(wt):
    """one template wallet per witness type (created in the parent, before the fork); every case copies its file"""
    if wt in TEMPLATES:
        return TEMPLATES[wt]
    import bitcoinlib.wallets as bw
    from bitcoinlib.keys import HDKey
    bw.Service = StubService
    name = 'c17_tmpl_%s' % wt
    path = os.path.join(os.getcwd(), name + '.db')
    if os.path.exists(path):
        os.remove(path)
    w = bw.Wallet.create(name, keys=HDKey.from_seed(b'\x17' * 32, network='bitcoinlib_test', witness_type=WT[wt]),
                         network='bitcoinlib_test', witness_type=WT[wt], db_uri='sqlite:///' + path)
    addrs = [w.get_key().address, w.new_key().address]
    w.get_keys(change=1, number_of_keys=4)
    w.session.close()
    TEMPLATES[wt] = (name, path, addrs)
    return TEMPLATES[wt]


def wtx_snapshot(tx):
    outs = []
    for o in tx.outputs:
        outs.append('%s:%s:%d' % (OUT_TAG.get(bytes(o.public_hash), '?'), amount_tok(o.value), 1 if o.change else 0))
    try:
        raw = tx.raw_hex()
    except Exception:
        raw = 'ERR'
    return 'fee=%s out=%s in=%s raw=%s' % (amount_tok(tx.fee), ','.join(outs) or '-',
                                           ','.join(amount_tok(i.value) for i in tx.inputs) or '-', raw)


OUT_TAG = {out_hash(i): i for i in range(64)}


def run_wtx(t):
    # wtx <L|S> <utxo values> <pay amounts> <fee|N:fpk> <k> <shuffle 0|1> <bump: -|fee,extra>
    import shutil, random
    import numpy as np
    import bitcoinlib.wallets as bw
    from bitcoinlib.keys import Address
    name, path, addrs = wallet_template(t[1])
    cpath = os.path.join(os.getcwd(), 'c17_case_%d.db' % os.getpid())
    shutil.copyfile(path, cpath)
    seed = hashlib.sha256(' '.join(t).encode()).digest()
    random.seed(seed)
    np.random.seed(int.from_bytes(seed[:4], 'big'))
    try:
        w = bw.Wallet(name, db_uri='sqlite:///' + cpath)
        utxos = [int(x) for x in t[2].split(',')]
        w.utxos_update(utxos=[dict(address=addrs[i % 2], script='', confirmations=3 + i, output_n=i,
                                   txid=hashlib.sha256(b'c17-wutxo-%d' % i).hexdigest(), value=v) for i, v in enumerate(utxos)])
        pays = [int(x) for x in t[3].split(',')]
        enc = 'bech32' if t[1] == 'S' else 'base58'
        stype = 'p2wpkh' if t[1] == 'S' else 'p2pkh'
        outs = [(Address(hashed_data=out_hash(i), script_type=stype, encoding=enc, network='bitcoinlib_test').address, v)
                for i, v in enumerate(pays)]
        if t[4].startswith('N:'):
            StubService.fpk = int(t[4][2:])
            fee = None
        else:
            fee = int(t[4])
        res = []
        try:
            tx = w.send(outs, fee=fee, number_of_change_outputs=int(t[5]), random_output_order=(t[6] == '1'),
                        replace_by_fee=True, broadcast=False)
        except Exception as e:
            if 'Sum of inputs values is not equal' in str(e):
                return 'ERR send:conserve'
            if 'Output must be of type integer' in str(e) or 'Output value < 0' in str(e):
                return 'ERR send:badamount'
            return 'ERR send:%s' % type(e).__name__
        res.append('OK ' + wtx_snapshot(tx))
        if t[7] != '-':
            f, e = t[7].split(',')
            try:
                tx.bumpfee(fee=int(f), extra_fee=int(e))
                r = 'OK'
            except Exception as ex:
                r = 'ERR ' + tx_err(ex)
            res.append(r + ' ' + wtx_snapshot(tx))
        return ' | '.join(res)
    finally:
        try:
            w.session.close()
        except Exception:
            pass
        try:
            os.remove(cpath)
        except Exception:
            pass


SESSION_KINDS = ('seq', 'vobj', 'txs', 'wtx')


def session_worker(line):
    """runs in a pool worker that serves exactly one task (maxtasksperchild=1): a fresh fork of the idle parent"""
    t = line.split(' ')
    try:
        if t[0] == 'seq':
            return run_seq(t[1:]), None
        if t[0] == 'vobj':
            return run_vobj(t[1], t[2:]), None
        if t[0] == 'txs':
            return run_txs(t)
        if t[0] == 'wtx':
            return run_wtx(t), None
    except RecursionError:
        return 'CRASH recursion', None
    except Exception as e:
        return 'CRASH %s' % type(e).__name__, None
    return 'BADREQ', None


def main():
    lines = [l.strip() for l in sys.stdin.read().split('\n')]
    if lines and lines[-1] == '':
        lines.pop()
    answers = [None] * len(lines)
    sess = [i for i, l in enumerate(lines) if l.split(' ')[0] in SESSION_KINDS]
    nproc = int(os.environ.get('C17_WORKERS', '0') or 0) or max(1, min(8, (os.cpu_count() or 2) // 2))
    if len(sess) > 8 and nproc > 1:
        # all sessions first, each in its own fresh fork of this (still untouched) process, several at a time
        for i in sess:
            if lines[i].startswith('wtx '):
                wallet_template(lines[i].split(' ')[1])
        import multiprocessing as mp
        with mp.get_context('fork').Pool(nproc, maxtasksperchild=1) as pool:
            for i, (r, side) in zip(sess, pool.imap(session_worker, [lines[i] for i in sess], chunksize=1)):
                answers[i] = r
                if side is not None:
                    SIDE[lines[i]] = side
    out = sys.stdout
    for i, line in enumerate(lines):
        if answers[i] is None:
            try:
                answers[i] = dispatch(line.split(' '))
            except RecursionError:
                answers[i] = 'CRASH recursion'
        out.write(answers[i] + '\n')
    out.flush()
    with open(os.path.join(os.getcwd(), 'c17_side.json'), 'w') as f:
        json.dump(SIDE, f)


main()
