"""Implementation adapter for C17: same line protocol as ocaml/c17_driver.ml, answers from /repo.
Strings travel as hex of their UTF-8 encoding ('-' = empty); floats as float.hex()."""
import sys, os, logging
sys.path.insert(0, os.path.dirname(os.path.abspath(__file__)))
from common_impl import serve
logging.disable(logging.CRITICAL)
from bitcoinlib.values import Value, value_to_satoshi
from bitcoinlib.networks import NETWORK_DEFINITIONS, DEFAULT_NETWORK
from bitcoinlib.config.config import NETWORK_DENOMINATORS
from bitcoinlib.transactions import Output, Transaction


def s_of(h):
    return '' if h == '-' else bytes.fromhex(h).decode('utf8')


def h_of(s):
    return s.encode('utf8').hex() if s else '-'


def fhex(x):
    return float(x).hex()


def dspec(t):
    if t == '-':
        return None
    if t == 'a':
        return 'auto'
    if t.startswith('s:'):
        return s_of(t[2:])
    if t.startswith('f:'):
        return float.fromhex(t[2:])
    raise RuntimeError('dspec')


def num_of(t):
    k, body = t[0], t[2:]
    if k == 'i':
        return int(body)
    if k == 'f':
        return float.fromhex(body)
    if k == 's':
        return s_of(body)
    raise RuntimeError('num')


def tok_of_num(v):
    if isinstance(v, bool):
        return '?bool'
    if isinstance(v, int):
        return 'i:%d' % v
    if isinstance(v, float):
        return 'f:' + v.hex()
    return '?' + type(v).__name__


def show_value(v):
    try:
        sat = str(v.value_sat)
        if not isinstance(v.value_sat, int):
            sat = '?' + type(v.value_sat).__name__
    except Exception:
        sat = 'ERR'
    return '%s %s %s %s' % (fhex(v.value), fhex(v.denominator), h_of(v.network.name), sat)


LOCK = b'\x51'


def raw_value_bytes(t):
    """the eight value bytes of output 0 as written by Transaction.raw() (legacy layout, no inputs)"""
    try:
        r = t.raw()
    except Exception:
        return 'ERR'
    # version(4) | n_in = 00 | n_out = 01 | value(8) | ...
    if t.witness_type == 'segwit' and r[4:6] == b'\x00\x01':
        r = r[:4] + r[6:]
    if r[4:6] != b'\x00\x01':
        return '?layout'
    return r[6:14].hex()


def dispatch(t):
    k = t[0]
    try:
        if k == 'tables':
            return 'default=%s nets=%s dens=%s' % (
                h_of(DEFAULT_NETWORK),
                ','.join('%s:%s:%s' % (h_of(n), h_of(d['currency_code']), fhex(d['denominator']))
                         for n, d in NETWORK_DEFINITIONS.items()),
                ','.join('%s:%s' % (fhex(d), h_of(s)) for d, s in NETWORK_DENOMINATORS.items()))
        if k == 'vts':
            net = s_of(t[2]) if t[2] != '-' else None
            r = value_to_satoshi(s_of(t[1]), network=net) if net else value_to_satoshi(s_of(t[1]))
            return str(r) if isinstance(r, int) and not isinstance(r, bool) else '?' + type(r).__name__
        if k == 'val':
            return show_value(Value(s_of(t[1]), network=s_of(t[2])))
        if k == 'fromsat':
            return show_value(Value.from_satoshi(int(t[1]), dspec(t[2]), network=s_of(t[3])))
        if k == 'str':
            v = Value.from_satoshi(int(t[1]), dspec(t[2]), network=s_of(t[5]))
            return h_of(v.str(dspec(t[3]), None if t[4] == '-' else int(t[4])))
        if k == 'strv':
            v = Value(s_of(t[1]), network=s_of(t[4]))
            return h_of(v.str(dspec(t[2]), None if t[3] == '-' else int(t[3])))
        if k == 'rt':
            s = Value.from_satoshi(int(t[1]), network=s_of(t[3])).str(dspec(t[2]))
            try:
                back = str(value_to_satoshi(s))
            except Exception:
                back = 'ERR'
            return h_of(s) + ' ' + back
        if k == 'tobytes':
            return Value(s_of(t[1]), network=s_of(t[2])).to_bytes().hex()
        if k == 'arith':
            a, b, n = Value(s_of(t[2])), Value(s_of(t[3])), int(t[4])
            if t[1] == 'add':
                return show_value(a + b)
            if t[1] == 'sub':
                return show_value(a - b)
            if t[1] == 'mul':
                return show_value(a * n)
            if t[1] == 'div':
                return show_value(a / n)
            return 'BADREQ'
        if k == 'pyfloat':
            return float(s_of(t[1])).hex()
        if k == 'pyround':
            x = float.fromhex(t[1])
            return str(round(x)) if t[2] == '-' else round(x, int(t[2])).hex()
        if k == 'pyfmt':
            return h_of('%.*f' % (int(t[2]), float.fromhex(t[1])))
        if k == 'pyfloatint':
            return float(int(t[1])).hex()
        if k == 'output':
            return tok_of_num(Output(value=num_of(t[1]), lock_script=LOCK, network=s_of(t[2])).value)
        if k == 'addout':
            tx = Transaction(network=s_of(t[2]))
            tx.add_output(num_of(t[1]), lock_script=LOCK)
            return tok_of_num(tx.outputs[0].value) + ' ' + raw_value_bytes(tx)
        if k == 'outraw':
            net = s_of(t[2])
            o = Output(value=num_of(t[1]), lock_script=LOCK, network=net)
            try:
                tx = Transaction(outputs=[o], network=net)      # the constructor itself calls raw() (txid)
            except Exception:
                return tok_of_num(o.value) + ' ERR'
            return tok_of_num(o.value) + ' ' + raw_value_bytes(tx)
    except RecursionError:
        raise
    except Exception:
        return 'ERR'
    return 'BADREQ'


serve(dispatch)
