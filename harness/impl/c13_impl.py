"""Implementation adapter for C13: same line protocol as ocaml/c13_driver.ml, answers from the repository's
public API (keys.sign / keys.verify / Signature.parse_bytes / encoding.der_encode_sig).

  sign <d> <msghex> <k|-> <ht> <form>     form = 2 letters: txid as b(ytes)/h(ex str)/U(pper-case hex str); key as K(ey)/H(DKey)/S(hex str)
      -> "<r> <s> <der+hashtype hex>"     (signed twice; "NONDET" if the two answers differ; "BADK" if .k is not
                                           the nonce that was asked for)
  verify <digesthex> <sighex> <pubkeyhex> <form>   form = 3 letters: digest b/h, signature b/h, key K(ey object)/B(ytes)/L (Key(.., strict=False))
      -> 1 | 0 | ERR
  parse <sighex>  -> "<r> <s> <hash_type> <as_der_encoded hex>" | ERR
  nonce <d> <h1hex> -> fastecdsa RFC6979 (prehashed) nonce, the generator Signature.create uses
  derenc <r> <s>  -> encoding.der_encode_sig

  signrand <d> <msghex> <ht> <form>  keys.sign(.., use_rfc6979=False) twice (the non-default random-nonce path)
      -> "<r> <s> <der hex> <k>;<r> <s> <der hex> <k>"   (no model answer: judged by the independent signer only)

Argument forms — every digest / signature argument is a form letter and a hex field:
  b = a bytes object holding the field's bytes, h = the field as lower-case hex text, U = as upper-case hex text,
  t = a str whose CHARACTERS are the field's bytes (mixed case, white space, text that is not hex at all).
  Private key forms of sign: K Key(hex) / H HDKey(hex) / S hex str / u upper-case hex str / B the 32 raw bytes /
  k Key(bytes) / y HDKey(bytes).  Public key forms of verify: K Key(bytes) object / L Key(.., strict=False) / B bytes /
  X lower hex text / Y upper hex text / Z text whose characters are the field.
  parsef <how> <form> <sigfield>   how = b parse_bytes / x parse_hex / a parse  -> as parse
  Every Signature object that is reported is also checked for self-consistency of bytes() / as_bytes() / hex() /
  as_hex() / as_der_encoded(as_hex) / str() / bytes(obj) / len(obj) (flags RAWFORM HEXFORM DERFORM appended).

Sessions — many calls in THIS process / on ONE object (module-level state and object attributes persist):
  signseq <mode> <d:msghex:k|-:ht:form> ...      every step is one keys.sign call, in order; mode r = the same
      Key / HDKey object is reused for all steps with the same key and form, f = a fresh one per step
      -> the answers of the steps (as for sign, signed once) joined by ';'
  vseq <mode> <src> <step> ...                   one Signature object, then one verify call per step on it
      src  = S:d:msghex:k|-:ht:form   keys.sign(...)            C:... Signature.create(...)
             P:<how>:<sighex>:<keyarg|->    how = b parse_bytes / x parse_hex / a parse(bytes) / A parse(str)
             V:<r>:<s>:<dghex|*>:<keyarg|-> Signature(r, s, txid=, public_key=); the digest is bytes, or text when a
                                            form letter h / U / t stands in front of the field
             P how also: u parse_hex(upper text) / w parse(upper text) / T parse_hex(text) / t parse(text)
             N:<b|h>:<sighex>               no object: every step hands the encoded signature to keys.verify
                                            (a step may name its own signature in a 4th field ":<sighex>")
      step = <entry><dgform>:<dghex|*>:<keyarg|*>   entry F keys.verify(txid, obj, key) / M obj.verify(txid, key) /
             A obj.txid = ..; obj.public_key = ..; obj.verify()  (the setters);
             dgform b / h / U / t; '*' = the argument is omitted
      keyarg = K<sec hex> Key(bytes) / H HDKey(bytes) / B bytes / X hex text / Y upper-case hex text /
               Z text whose characters are the field / T (x, y) tuple /
               V<decimal d> private Key / W<decimal d> private HDKey;  mode r reuses key objects between steps
      -> "ERR" when the object cannot be built, else the verdicts 1 | 0 | ERR joined by ','
"""
import sys, os, logging
sys.path.insert(0, os.path.dirname(os.path.abspath(__file__)))
from common_impl import hx, unhx, serve
logging.disable(logging.CRITICAL)
import hashlib
from bitcoinlib.keys import Key, HDKey, Signature, sign, verify
from bitcoinlib.encoding import der_encode_sig
from bitcoinlib.config.secp256k1 import secp256k1_n


def parg(form, field):
    """the argument as the caller hands it over"""
    b = unhx(field)
    if form == 'b':
        return b
    if form == 'h':
        return b.hex()
    if form == 'U':
        return b.hex().upper()
    if form == 't':
        return b.decode('latin-1')
    raise ValueError(form)


def parg_tok(tok):
    return parg(tok[0], tok[1:]) if tok[:1] in ('h', 'U', 't') else parg('b', tok)


def mkpriv(d, form):
    h = '%064x' % d
    if form == 'K':
        return Key(h)
    if form == 'H':
        return HDKey(h)
    if form == 'u':
        return h.upper()
    if form == 'B':
        return bytes.fromhex(h)
    if form == 'k':
        return Key(bytes.fromhex(h))
    if form == 'y':
        return HDKey(bytes.fromhex(h))
    return h


def obj_flags(sg):
    """self-consistency of the output forms of a Signature object"""
    try:
        return _obj_flags(sg)
    except Exception as e:
        return ' OUTFORM-%s' % type(e).__name__


def _obj_flags(sg):
    out = ''
    raw = sg.r.to_bytes(32, 'big') + sg.s.to_bytes(32, 'big')
    if sg.bytes() != raw or sg.as_bytes() != raw:
        out += ' RAWFORM'
    if sg.hex() != raw.hex() or sg.as_hex() != raw.hex():
        out += ' HEXFORM'
    der = sg.as_der_encoded()
    nht = sg.as_der_encoded(include_hash_type=False)
    if sg.as_der_encoded(as_hex=True) != der.hex() or str(sg) != der.hex() or bytes(sg) != der or len(sg) != len(der) or \
            sg.as_der_encoded(as_hex=True, include_hash_type=False) != nht.hex() or nht != der_encode_sig(sg.r, sg.s) or \
            der[-1:] != bytes([sg.hash_type]):
        out += ' DERFORM'
    return out


def one_sign(d, msg_field, k, ht, form):
    sg = sign(parg(form[0], msg_field), mkpriv(d, form[1]), k=k, hash_type=ht)
    out = '%d %d %s' % (sg.r, sg.s, hx(sg.as_der_encoded()))
    # the object must be self-consistent: raw form, DER without hash type, own verification
    out += obj_flags(sg)
    if sg.as_der_encoded(include_hash_type=False) + bytes([ht]) != sg.as_der_encoded():
        out += ' DERFORM'
    if k and sg.k != k:
        out += ' BADK'
    return out


def sign_step(tok, pool):
    d, msg, k, ht, form = tok.split(':')
    d, k, ht = int(d), (None if k == '-' else int(k)), int(ht)
    try:
        txid = parg(form[0], msg)
        if pool is not None and form[1] in 'KHky':
            if (d, form[1]) not in pool:
                pool[(d, form[1])] = mkpriv(d, form[1])
            key = pool[(d, form[1])]
        else:
            key = mkpriv(d, form[1])
        sg = sign(txid, key, k=k, hash_type=ht)
        out = '%d %d %s' % (sg.r, sg.s, hx(sg.as_der_encoded()))
        out += obj_flags(sg)
        if k and sg.k != k:
            out += ' BADK'
        return out, sg
    except Exception:
        return 'ERR', None


class NoCall(Exception):
    pass


def key_arg(tok, pool):
    """the public-key argument of a step; NoCall when the caller cannot even build it"""
    if tok in ('*', '-'):
        return None
    if pool is not None and tok in pool:
        return pool[tok]
    f, body = tok[0], tok[1:]
    try:
        if f == 'K':
            v = Key(bytes.fromhex(body))
        elif f == 'H':
            v = HDKey(bytes.fromhex(body))
        elif f == 'B':
            v = bytes.fromhex(body)
        elif f == 'X':
            v = body
        elif f == 'Y':
            v = body.upper()
        elif f == 'Z':
            v = bytes.fromhex(body).decode('latin-1')
        elif f == 'T':
            v = tuple(Key(bytes.fromhex(body)).public_point())
        elif f == 'V':
            v = Key('%064x' % int(body))
        elif f == 'W':
            v = HDKey('%064x' % int(body))
        else:
            raise ValueError(tok)
    except Exception:
        raise NoCall()
    if pool is not None and f in 'KHVW':
        pool[tok] = v
    return v


def dg_arg(form, tok):
    if tok == '*':
        return None
    return parg(form, tok)


def verdict(r):
    return '1' if r is True else '0' if r is False else 'ODD %r' % (r,)


def vseq(t):
    mode, src, steps = t[1], t[2].split(':'), t[3:]
    pool = {} if mode == 'r' else None
    kind = src[0]
    obj = None
    try:
        if kind in 'SC':
            d, msg, k, ht, form = src[1:]
            d, k, ht = int(d), (None if k == '-' else int(k)), int(ht)
            fn = sign if kind == 'S' else Signature.create
            obj = fn(parg(form[0], msg), mkpriv(d, form[1]), k=k, hash_type=ht)
        elif kind == 'P':
            how, ka = src[1], key_arg(src[3], pool)
            sform = {'b': 'b', 'a': 'b', 'x': 'h', 'A': 'h', 'u': 'U', 'w': 'U', 'T': 't', 't': 't'}[how]
            sg = parg(sform, src[2])
            obj = (Signature.parse_bytes if how == 'b' else Signature.parse_hex if how in 'xuT' else Signature.parse)(sg, ka)
        elif kind == 'V':
            obj = Signature(int(src[1]), int(src[2]), txid=(None if src[3] == '*' else parg_tok(src[3])),
                            public_key=key_arg(src[4], pool))
        elif kind == 'N':
            sg = parg(src[1], src[2])
        else:
            return 'BADREQ'
    except Exception:
        return 'ERR'
    if kind != 'N' and not isinstance(obj, Signature):
        return 'ERR'
    out = []
    for st in steps:
        head, dg, ka = st.split(':')[:3]
        try:
            key = key_arg(ka, pool)
            txid = dg_arg(head[1], dg)
            if kind == 'N':
                own = st.split(':')[3:]
                sg_i = sg if not own else parg(src[1], own[0])
                r = verify(txid, sg_i, key)
            elif head[0] == 'F':
                r = verify(txid, obj) if key is None else verify(txid, obj, key)
            elif head[0] == 'A':
                if txid is not None:
                    obj.txid = txid
                if key is not None:
                    obj.public_key = key
                r = obj.verify()
            else:
                r = obj.verify(txid, key)
            out.append(verdict(r))
        except RecursionError:
            raise
        except Exception:
            out.append('ERR')
    return ','.join(out)


def dispatch(t):
    c = t[0]
    if c == 'signseq':
        pool = {} if t[1] == 'r' else None
        return ';'.join(sign_step(tok, pool)[0] for tok in t[2:])
    if c == 'vseq':
        return vseq(t)
    if c == 'signrand':
        d, ht, form = int(t[1]), int(t[3]), t[4]
        outs = []
        try:
            for _ in range(2):
                sg = sign(parg(form[0], t[2]), mkpriv(d, form[1]), use_rfc6979=False, hash_type=ht)
                outs.append('%d %d %s %d' % (sg.r, sg.s, hx(sg.as_der_encoded()), sg.k))
        except Exception:
            return 'ERR'
        return ';'.join(outs)
    if c == 'sign':
        d, k, ht, form = int(t[1]), (None if t[3] == '-' else int(t[3])), int(t[4]), t[5]
        try:
            a = one_sign(d, t[2], k, ht, form)
        except Exception:
            return 'ERR'
        try:
            b = one_sign(d, t[2], k, ht, form)
        except Exception:
            return 'NONDET'
        return a if a == b else 'NONDET'
    if c == 'verify':
        pk, form = unhx(t[3]), t[4]
        try:
            key = Key(pk) if form[2] == 'K' else Key(pk, strict=False) if form[2] == 'L' else pk.hex() if form[2] == 'X' else \
                pk.hex().upper() if form[2] == 'Y' else pk.decode('latin-1') if form[2] == 'Z' else pk
            r = verify(parg(form[0], t[1]), parg(form[1], t[2]), key)
        except Exception:
            return 'ERR'
        return '1' if r is True else '0' if r is False else 'ODD %r' % (r,)
    if c in ('parse', 'parsef'):
        try:
            if c == 'parse':
                s = Signature.parse_bytes(unhx(t[1]))
            else:
                a = parg(t[2], t[3])
                s = {'b': Signature.parse_bytes, 'x': Signature.parse_hex, 'a': Signature.parse}[t[1]](a)
            if not isinstance(s, Signature):
                return 'ERR'
            return '%d %d %d %s' % (s.r, s.s, s.hash_type, hx(s.as_der_encoded())) + obj_flags(s)
        except Exception:
            return 'ERR'
    if c == 'nonce':
        from fastecdsa.util import RFC6979
        return str(RFC6979(unhx(t[2]), int(t[1]), secp256k1_n, hashlib.sha256, prehashed=True).gen_nonce())
    if c == 'derenc':
        try:
            return hx(der_encode_sig(int(t[1]), int(t[2])))
        except Exception:
            return 'ERR'
    return 'BADREQ'


serve(dispatch)
