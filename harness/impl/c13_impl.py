"""Implementation adapter for C13: same line protocol as ocaml/c13_driver.ml, answers from the repository's
public API (keys.sign / keys.verify / Signature.parse_bytes / encoding.der_encode_sig).

  sign <d> <msghex> <k|-> <ht> <form>     form = 2 letters: txid as b(ytes)/h(ex str)/U(pper-case hex str); key as K(ey)/H(DKey)/S(hex str)
      -> "<r> <s> <der+hashtype hex>"     (signed twice; "NONDET" if the two answers differ; "BADK" if .k is not
                                           the nonce that was asked for)
  verify <digesthex> <sighex> <pubkeyhex> <form>   form = 3 letters: digest b/h, signature b/h, key K(ey object)/B(ytes)/L (Key(.., strict=False))
      -> 1 | 0 | ERR
  parse <sighex>  -> "<r> <s> <hash_type> <as_der_encoded hex>" | ERR
  nonce <d> <h1hex> -> fastecdsa RFC6979 (prehashed) nonce, the generator Signature.create uses
  derenc <r> <s>  -> encoding.der_encode_sig
"""
import sys, os, logging
sys.path.insert(0, os.path.dirname(os.path.abspath(__file__)))
from common_impl import hx, unhx, serve
logging.disable(logging.CRITICAL)
import hashlib
from bitcoinlib.keys import Key, HDKey, Signature, sign, verify
from bitcoinlib.encoding import der_encode_sig
from bitcoinlib.config.secp256k1 import secp256k1_n


def mkpriv(d, form):
    h = '%064x' % d
    if form == 'K':
        return Key(h)
    if form == 'H':
        return HDKey(h)
    return h


def one_sign(d, msg, k, ht, form):
    txid = msg if form[0] == 'b' else msg.hex().upper() if form[0] == 'U' else msg.hex()
    sg = sign(txid, mkpriv(d, form[1]), k=k, hash_type=ht)
    out = '%d %d %s' % (sg.r, sg.s, hx(sg.as_der_encoded()))
    # the object must be self-consistent: raw form, DER without hash type, own verification
    if sg.bytes() != sg.r.to_bytes(32, 'big') + sg.s.to_bytes(32, 'big'):
        out += ' RAWFORM'
    if sg.as_der_encoded(include_hash_type=False) + bytes([ht]) != sg.as_der_encoded():
        out += ' DERFORM'
    if k and sg.k != k:
        out += ' BADK'
    return out


def dispatch(t):
    c = t[0]
    if c == 'sign':
        d, msg, k, ht, form = int(t[1]), unhx(t[2]), (None if t[3] == '-' else int(t[3])), int(t[4]), t[5]
        try:
            a = one_sign(d, msg, k, ht, form)
        except Exception:
            return 'ERR'
        try:
            b = one_sign(d, msg, k, ht, form)
        except Exception:
            return 'NONDET'
        return a if a == b else 'NONDET'
    if c == 'verify':
        dg, sg, pk, form = unhx(t[1]), unhx(t[2]), unhx(t[3]), t[4]
        try:
            key = Key(pk) if form[2] == 'K' else Key(pk, strict=False) if form[2] == 'L' else pk
            r = verify(dg if form[0] == 'b' else dg.hex(), sg if form[1] == 'b' else sg.hex(), key)
        except Exception:
            return 'ERR'
        return '1' if r is True else '0' if r is False else 'ODD %r' % (r,)
    if c == 'parse':
        try:
            s = Signature.parse_bytes(unhx(t[1]))
            return '%d %d %d %s' % (s.r, s.s, s.hash_type, hx(s.as_der_encoded()))
        except Exception:
            return 'ERR'
    if c == 'nonce':
        from fastecdsa.util import RFC6979
        return str(RFC6979(unhx(t[2]), int(t[1]), secp256k1_n, hashlib.sha256, prehashed=True).gen_nonce())
    if c == 'derenc':
        try:
            return hx(der_encode_sig(int(t[1]), int(t[2])))
        except Exception:
            return 'ERR'
    return 'BADREQ'


serve(dispatch)
