"""Implementation adapter for C13: same line protocol as ocaml/c13_driver.ml, answers from the repository's
public API (keys.sign / keys.verify / Signature.parse_bytes / encoding.der_encode_sig).

  sign <d> <msghex> <k|-> <ht> <form>     form = 2 letters: txid as b(ytes)/h(ex str)/U(pper-case hex str); key as K(ey)/H(DKey)/S(hex str)
      -> "<r> <s> <der+hashtype hex>"     (signed twice; "NONDET" if the two answers differ; "BADK" if .k is not
                                           the nonce that was asked for)
  verify <digesthex> <sighex> <pubkeyhex> <form>   form = 3 letters: digest b/h, signature b/h, key K(ey object)/B(ytes)/L (Key(.., strict=False))
      -> 1 | 0 | ERR
  parse <sighex>  -> "<r> <s> <hash_type> <as_der_encoded hex>" | ERR
  nonce <d> <h1hex> -> fastecdsa RFC6979 (prehashed) nonce, the generator Signature.create uses
  derenc <r> <s>  -> encoding.der_encode_sig

  signrand <d> <msghex> <ht> <form>  keys.sign(.., use_rfc6979=False) twice (the non-default random-nonce path)
      -> "<r> <s> <der hex> <k>;<r> <s> <der hex> <k>"   (no model answer: judged by the independent signer only)

Sessions — many calls in THIS process / on ONE object (module-level state and object attributes persist):
  signseq <mode> <d:msghex:k|-:ht:form> ...      every step is one keys.sign call, in order; mode r = the same
      Key / HDKey object is reused for all steps with the same key and form, f = a fresh one per step
      -> the answers of the steps (as for sign, signed once) joined by ';'
  vseq <mode> <src> <step> ...                   one Signature object, then one verify call per step on it
      src  = S:d:msghex:k|-:ht:form   keys.sign(...)            C:... Signature.create(...)
             P:<how>:<sighex>:<keyarg|->    how = b parse_bytes / x parse_hex / a parse(bytes) / A parse(str)
             V:<r>:<s>:<dghex|*>:<keyarg|-> Signature(r, s, txid=, public_key=)
             N:<b|h>:<sighex>               no object: every step hands the encoded signature to keys.verify
                                            (a step may name its own signature in a 4th field ":<sighex>")
      step = <entry><dgform>:<dghex|*>:<keyarg|*>   entry F keys.verify(txid, obj, key) / M obj.verify(txid, key);
             dgform b / h / U; '*' = the argument is omitted
      keyarg = K<sec hex> Key(bytes) / H HDKey(bytes) / B bytes / X hex text / Y upper-case hex text / T (x, y) tuple /
               V<decimal d> private Key / W<decimal d> private HDKey;  mode r reuses key objects between steps
      -> "ERR" when the object cannot be built, else the verdicts 1 | 0 | ERR joined by ','
"""
import sys, os, logging
sys.path.insert(0, os.path.dirname(os.path.abspath(__file__)))
from common_impl import hx, unhx, serve
logging.disable(logging.CRITICAL)
import hashlib
from bitcoinlib.keys import Key, HDKey, Signature, sign, verify
from bitcoinlib.encoding import der_encode_sig
from bitcoinlib.config.secp256k1 import secp256k1_n


def mkpriv(d, form):
    h = '%064x' % d
    if form == 'K':
        return Key(h)
    if form == 'H':
        return HDKey(h)
    return h


def one_sign(d, msg, k, ht, form):
    txid = msg if form[0] == 'b' else msg.hex().upper() if form[0] == 'U' else msg.hex()
    sg = sign(txid, mkpriv(d, form[1]), k=k, hash_type=ht)
    out = '%d %d %s' % (sg.r, sg.s, hx(sg.as_der_encoded()))
    # the object must be self-consistent: raw form, DER without hash type, own verification
    if sg.bytes() != sg.r.to_bytes(32, 'big') + sg.s.to_bytes(32, 'big'):
        out += ' RAWFORM'
    if sg.as_der_encoded(include_hash_type=False) + bytes([ht]) != sg.as_der_encoded():
        out += ' DERFORM'
    if k and sg.k != k:
        out += ' BADK'
    return out


def sign_step(tok, pool):
    d, msg, k, ht, form = tok.split(':')
    d, msg, k, ht = int(d), unhx(msg), (None if k == '-' else int(k)), int(ht)
    txid = msg if form[0] == 'b' else msg.hex()
    try:
        if pool is not None and form[1] != 'S':
            if (d, form[1]) not in pool:
                pool[(d, form[1])] = mkpriv(d, form[1])
            key = pool[(d, form[1])]
        else:
            key = mkpriv(d, form[1])
        sg = sign(txid, key, k=k, hash_type=ht)
        out = '%d %d %s' % (sg.r, sg.s, hx(sg.as_der_encoded()))
        if sg.bytes() != sg.r.to_bytes(32, 'big') + sg.s.to_bytes(32, 'big'):
            out += ' RAWFORM'
        if k and sg.k != k:
            out += ' BADK'
        return out, sg
    except Exception:
        return 'ERR', None


class NoCall(Exception):
    pass


def key_arg(tok, pool):
    """the public-key argument of a step; NoCall when the caller cannot even build it"""
    if tok in ('*', '-'):
        return None
    if pool is not None and tok in pool:
        return pool[tok]
    f, body = tok[0], tok[1:]
    try:
        if f == 'K':
            v = Key(bytes.fromhex(body))
        elif f == 'H':
            v = HDKey(bytes.fromhex(body))
        elif f == 'B':
            v = bytes.fromhex(body)
        elif f == 'X':
            v = body
        elif f == 'Y':
            v = body.upper()
        elif f == 'T':
            v = tuple(Key(bytes.fromhex(body)).public_point())
        elif f == 'V':
            v = Key('%064x' % int(body))
        elif f == 'W':
            v = HDKey('%064x' % int(body))
        else:
            raise ValueError(tok)
    except Exception:
        raise NoCall()
    if pool is not None and f in 'KHVW':
        pool[tok] = v
    return v


def dg_arg(form, tok):
    if tok == '*':
        return None
    b = unhx(tok)
    return b if form == 'b' else b.hex().upper() if form == 'U' else b.hex()


def verdict(r):
    return '1' if r is True else '0' if r is False else 'ODD %r' % (r,)


def vseq(t):
    mode, src, steps = t[1], t[2].split(':'), t[3:]
    pool = {} if mode == 'r' else None
    kind = src[0]
    obj = None
    try:
        if kind in 'SC':
            d, msg, k, ht, form = src[1:]
            d, msg, k, ht = int(d), unhx(msg), (None if k == '-' else int(k)), int(ht)
            txid = msg if form[0] == 'b' else msg.hex()
            fn = sign if kind == 'S' else Signature.create
            obj = fn(txid, mkpriv(d, form[1]), k=k, hash_type=ht)
        elif kind == 'P':
            how, sg, ka = src[1], unhx(src[2]), key_arg(src[3], pool)
            obj = {'b': lambda: Signature.parse_bytes(sg, ka), 'x': lambda: Signature.parse_hex(sg.hex(), ka),
                   'a': lambda: Signature.parse(sg, ka), 'A': lambda: Signature.parse(sg.hex(), ka)}[how]()
        elif kind == 'V':
            obj = Signature(int(src[1]), int(src[2]), txid=(None if src[3] == '*' else unhx(src[3])),
                            public_key=key_arg(src[4], pool))
        elif kind == 'N':
            sg = unhx(src[2]) if src[1] == 'b' else unhx(src[2]).hex()
        else:
            return 'BADREQ'
    except Exception:
        return 'ERR'
    if kind != 'N' and not isinstance(obj, Signature):
        return 'ERR'
    out = []
    for st in steps:
        head, dg, ka = st.split(':')[:3]
        try:
            key = key_arg(ka, pool)
            txid = dg_arg(head[1], dg)
            if kind == 'N':
                own = st.split(':')[3:]
                sg_i = sg if not own else unhx(own[0]) if src[1] == 'b' else unhx(own[0]).hex()
                r = verify(txid, sg_i, key)
            elif head[0] == 'F':
                r = verify(txid, obj) if key is None else verify(txid, obj, key)
            else:
                r = obj.verify(txid, key)
            out.append(verdict(r))
        except RecursionError:
            raise
        except Exception:
            out.append('ERR')
    return ','.join(out)


def dispatch(t):
    c = t[0]
    if c == 'signseq':
        pool = {} if t[1] == 'r' else None
        return ';'.join(sign_step(tok, pool)[0] for tok in t[2:])
    if c == 'vseq':
        return vseq(t)
    if c == 'signrand':
        d, msg, ht, form = int(t[1]), unhx(t[2]), int(t[3]), t[4]
        outs = []
        try:
            for _ in range(2):
                sg = sign(msg if form[0] == 'b' else msg.hex(), mkpriv(d, form[1]), use_rfc6979=False, hash_type=ht)
                outs.append('%d %d %s %d' % (sg.r, sg.s, hx(sg.as_der_encoded()), sg.k))
        except Exception:
            return 'ERR'
        return ';'.join(outs)
    if c == 'sign':
        d, msg, k, ht, form = int(t[1]), unhx(t[2]), (None if t[3] == '-' else int(t[3])), int(t[4]), t[5]
        try:
            a = one_sign(d, msg, k, ht, form)
        except Exception:
            return 'ERR'
        try:
            b = one_sign(d, msg, k, ht, form)
        except Exception:
            return 'NONDET'
        return a if a == b else 'NONDET'
    if c == 'verify':
        dg, sg, pk, form = unhx(t[1]), unhx(t[2]), unhx(t[3]), t[4]
        try:
            key = Key(pk) if form[2] == 'K' else Key(pk, strict=False) if form[2] == 'L' else pk.hex() if form[2] == 'X' else pk
            r = verify(dg if form[0] == 'b' else dg.hex(), sg if form[1] == 'b' else sg.hex(), key)
        except Exception:
            return 'ERR'
        return '1' if r is True else '0' if r is False else 'ODD %r' % (r,)
    if c == 'parse':
        try:
            s = Signature.parse_bytes(unhx(t[1]))
            return '%d %d %d %s' % (s.r, s.s, s.hash_type, hx(s.as_der_encoded()))
        except Exception:
            return 'ERR'
    if c == 'nonce':
        from fastecdsa.util import RFC6979
        return str(RFC6979(unhx(t[2]), int(t[1]), secp256k1_n, hashlib.sha256, prehashed=True).gen_nonce())
    if c == 'derenc':
        try:
            return hx(der_encode_sig(int(t[1]), int(t[2])))
        except Exception:
            return 'ERR'
    return 'BADREQ'


serve(dispatch)
