"""Implementation adapter for C06: same line protocol as ocaml/c06_driver.ml, answers from /repo through
Transaction.parse / parse_hex / parse_bytes / raw / txid, Transaction(...) + add_input / add_output,
Block.parse_bytes(parse_transactions=True) / serialize / parse_transactions_dict / target; sequences of reader calls on
one Block object (Block.parse / parse_bytes / parse_bytesio with parse_transactions and limit, parse_transactions(k),
parse_transaction, parse_transactions_dict, parse_transaction_dict, serialize)."""
import sys, os, logging
sys.path.insert(0, os.path.dirname(os.path.abspath(__file__)))
from common_impl import hx, unhx
logging.disable(logging.CRITICAL)
from bitcoinlib.transactions import Transaction
from bitcoinlib.blocks import Block


def tok_in(i):
    # Input.witnesses of an input whose witness_type is 'legacy' is bookkeeping (update_scripts fills it in for
    # P2PKH), not a witness stack of the transaction
    ws = [] if i.witness_type == 'legacy' else i.witnesses
    return ':'.join([hx(bytes(i.prev_txid)), str(i.output_n_int), hx(bytes(i.unlocking_script)), str(i.sequence),
                     ','.join(hx(bytes(w)) for w in ws)])


def tok_tx(t):
    ins = '|'.join(tok_in(i) for i in t.inputs) or '-'
    outs = '|'.join('%d:%s' % (o.value, hx(bytes(o.lock_script))) for o in t.outputs) or '-'
    return ';'.join([str(t.version_int), str(t.locktime), '1' if t.witness_type == 'segwit' else '0', ins, outs])


def one_parse(raw, strict):
    try:
        t = Transaction.parse(raw, strict=strict)
        return '%s %s %s' % (hx(t.raw()), t.txid, tok_tx(t)), t
    except RecursionError:
        raise
    except Exception as e:
        return 'ERR ' + type(e).__name__, None


def do_tx(raw):
    import time
    t0 = time.time()
    s, ts = one_parse(raw, True)
    slow = time.time() - t0 > 60      # witness stacks of 65535 items take the library minutes per parse
    l, tl = one_parse(raw, False)
    extra = ''
    if ts is not None and not slow:
        # the other public entry points must agree with Transaction.parse
        try:
            a = Transaction.parse_hex(raw.hex())
            b = Transaction.parse_bytes(raw)
            if not (a.raw() == b.raw() == ts.raw() and a.txid == b.txid == ts.txid and a.raw_hex() == ts.raw().hex()):
                extra = ' ENTRY-DIFFER'
        except Exception as e:
            extra = ' ENTRY-DIFFER ' + type(e).__name__
    return 'S:%s L:%s%s' % (s, l, extra)


def do_api(f):
    v, lt, sw, ins, outs = f.split(';')
    try:
        t = Transaction(version=int(v), locktime=int(lt), witness_type='segwit' if sw == '1' else 'legacy')
        for s in ([] if ins == '-' else ins.split('|')):
            p, n, sc, q, w = s.split(':')
            wit = None if w == '' else [unhx(x) for x in w.split(',')]
            t.add_input(prev_txid=unhx(p), output_n=int(n), unlocking_script=unhx(sc), sequence=int(q),
                        witnesses=wit, strict=False)
        for s in ([] if outs == '-' else outs.split('|')):
            val, sc = s.split(':')
            t.add_output(int(val), lock_script=unhx(sc), strict=False)
        return '%s %s' % (hx(t.raw()), tok_tx(t))
    except RecursionError:
        raise
    except Exception as e:
        return 'ERR ' + type(e).__name__


def _cs(n):
    if n < 253:
        return bytes([n])
    if n <= 0xffff:
        return b'\xfd' + n.to_bytes(2, 'little')
    return b'\xfe' + n.to_bytes(4, 'little')


def do_apif(form, f):
    """the fields of an `api` request handed over in alternative argument forms (see harness/props/c06.py)"""
    from bitcoinlib.transactions import Input, Output
    wf, pf, sf, cf, nf = form
    v, lt, sw, ins, outs = f.split(';')
    wt = 'segwit' if sw == '1' else 'legacy'
    try:
        t = Transaction(version=int(v), locktime=int(lt), witness_type=wt) if cf == 'a' else None
        li, lo = [], []
        for k, s in enumerate([] if ins == '-' else ins.split('|')):
            p, n, sc, q, w = s.split(':')
            items = None if w == '' else [unhx(x) for x in w.split(',')]
            if items is None:
                wit = None
            elif wf == 'l':
                wit = items
            elif wf == 't':
                wit = tuple(items)
            elif wf == 'h':
                wit = [x.hex() for x in items]
            else:
                wit = _cs(len(items)) + b''.join(_cs(len(x)) + x for x in items)
            prev = unhx(p) if pf == 'b' else unhx(p).hex()
            us = unhx(sc) if sf == 'b' else unhx(sc).hex()
            n, q = (int(n), int(q)) if nf == 'i' else (int(n).to_bytes(4, 'big'), int(q).to_bytes(4, 'little'))
            if cf == 'a':
                t.add_input(prev_txid=prev, output_n=n, unlocking_script=us, sequence=q, witnesses=wit, strict=False)
            else:
                li.append(Input(prev_txid=prev, output_n=n, unlocking_script=us, sequence=q, witnesses=wit,
                                index_n=k, strict=False))
        for k, s in enumerate([] if outs == '-' else outs.split('|')):
            val, sc = s.split(':')
            ls = unhx(sc) if sf == 'b' else unhx(sc).hex()
            if cf == 'a':
                t.add_output(int(val), lock_script=ls, strict=False)
            else:
                lo.append(Output(int(val), lock_script=ls, output_n=k, strict=False))
        if cf == 'o':
            t = Transaction(inputs=li, outputs=lo, version=int(v), locktime=int(lt), witness_type=wt)
        return '%s %s' % (hx(t.raw()), tok_tx(t))
    except RecursionError:
        raise
    except Exception as e:
        return 'ERR ' + type(e).__name__


def do_block(raw):
    try:
        b = Block.parse_bytes(raw, parse_transactions=True)
        try:
            ser = hx(b.serialize())
        except Exception as e:
            ser = 'ERR'
        tg = b.target
        first = ' '.join([ser, hx(b.block_hash), str(b.version_int), hx(b.prev_block), hx(b.merkle_root), str(b.time),
                          str(b.bits_int), str(b.nonce_int), str(tg) if isinstance(tg, int) else 'FLOAT',
                          str(b.tx_count), ','.join(t.txid for t in b.transactions) or '-'])
    except RecursionError:
        raise
    except Exception as e:
        first = 'ERR'
    try:
        b2 = Block.parse_bytes(raw, parse_transactions=False)
        d = b2.parse_transactions_dict()
        second = (','.join(hx(x['txid']) for x in d) or '-') + ' ' + hx(b''.join(x['rawtx'] for x in d))
    except RecursionError:
        raise
    except Exception as e:
        second = 'ERR'
    return first + ' D:' + second


def do_bsess(t):
    """bsess <raw> <entry>:<P>:<k> <op> ... — reader calls on ONE Block object.
    entry: pb Block.parse_bytes, p Block.parse(bytes), pio Block.parse(BytesIO), pbio Block.parse_bytesio(BytesIO)
    op: T<k> parse_transactions(k) | t parse_transaction() | D parse_transactions_dict() | d parse_transaction_dict()
        | S serialize()
    answer: one field per step (the opening call first) `result;txids of Block.transactions;tx_count`, joined by ' | '"""
    from io import BytesIO
    raw = unhx(t[1])
    ent, ptx, lim = t[2].split(':')
    ptx, lim = ptx == '1', int(lim)
    b = None

    def snap(res):
        return '%s;%s;%d' % (res, ','.join(x.txid for x in b.transactions) or '-', b.tx_count)

    def dtok(d):
        return hx(d['txid']) + '/' + hx(d['rawtx'])
    try:
        if ent == 'pb':
            b = Block.parse_bytes(raw, parse_transactions=ptx, limit=lim)
        elif ent == 'p':
            b = Block.parse(raw, parse_transactions=ptx, limit=lim)
        elif ent == 'pio':
            b = Block.parse(BytesIO(raw), parse_transactions=ptx, limit=lim)
        else:
            b = Block.parse_bytesio(BytesIO(raw), parse_transactions=ptx, limit=lim)
        steps = [snap('ok')]
    except RecursionError:
        raise
    except Exception as e:
        return 'ERR ' + type(e).__name__
    for op in t[3:]:
        try:
            if op[0] == 'T':
                r = b.parse_transactions(int(op[1:]))
                res = 'ok' if r is None else 'RET'
            elif op == 't':
                r = b.parse_transaction()
                res = 'F' if r is False else r.txid
            elif op == 'D':
                r = b.parse_transactions_dict()
                res = ','.join(dtok(d) for d in r) or '-'
            elif op == 'd':
                r = b.parse_transaction_dict()
                res = 'F' if r is False else dtok(r)
            elif op == 'S':
                try:
                    res = hx(b.serialize())
                except ValueError:
                    res = 'NOSER'
            else:
                return 'BADREQ'
        except RecursionError:
            raise
        except Exception as e:
            res = 'ERR ' + type(e).__name__
        steps.append(snap(res))
    steps.append('#' + hx(b.block_hash))
    return ' | '.join(steps)


def do_target(bits):
    b = Block('00' * 32, 1, '00' * 32, '00' * 32, 0, bits, 0)
    tg = b.target
    return str(tg) if isinstance(tg, int) else 'FLOAT:' + float(tg).hex()


def dispatch(t):
    k = t[0]
    if k == 'tx':
        return do_tx(unhx(t[2]))
    if k == 'api':
        return do_api(t[1])
    if k == 'apif':
        return do_apif(t[1], t[2])
    if k == 'block':
        return do_block(unhx(t[1]))
    if k == 'target':
        return do_target(int(t[1]))
    if k == 'bsess':
        return do_bsess(t)
    return 'BADREQ'


def answer(line):
    toks = line.strip().split(' ')
    try:
        return dispatch(toks)
    except RecursionError:
        return 'CRASH recursion'
    except Exception as e:
        # as common_impl.serve: an unexpected library exception is an ANSWER, not a reason for the adapter to die
        return 'CRASH %s: %s' % (type(e).__name__, ' '.join(str(e).split())[:120])


def main():
    """every request builds its own objects, so the lines are answered by a pool of forked workers (the thorough
    streams hold transactions the library needs minutes for); answers come back in request order"""
    lines = sys.stdin.read().split('\n')
    if lines and lines[-1] == '':
        lines.pop()
    workers = int(os.environ.get('C06_IMPL_WORKERS', '8'))
    if len(lines) < 200 or workers <= 1:
        for ln in lines:
            sys.stdout.write(answer(ln) + '\n')
    else:
        import multiprocessing
        with multiprocessing.get_context('fork').Pool(workers) as pool:
            for r in pool.imap(answer, lines, chunksize=1):
                sys.stdout.write(r + '\n')
    sys.stdout.flush()


main()
