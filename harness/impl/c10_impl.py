"""Implementation adapter for C10: one multisig ceremony per request line, run with REAL cosigner wallets
(public API only), each wallet on its own sqlite file in the cwd, network bitcoinlib_test (offline provider).

request: cer K m sort given coin cpath wallets addrs inputs chains seeds
   (same line as the model driver's, plus the participants' seeds; the public keys in `wallets`/`addrs` were
    derived by the harness independently of the library and are used here ONLY to name keys by participant)
answer : W:<cosigner_id>/<cosigner order>;...  A:<redeemscript>/<address>/<owners>/<path>,...;...  X:<obs,...>;...
"""
import sys, os, logging, copy
sys.path.insert(0, os.path.dirname(os.path.abspath(__file__)))
logging.disable(logging.CRITICAL)
from common_impl import serve
from bitcoinlib.wallets import Wallet
from bitcoinlib.keys import HDKey

NW = 'bitcoinlib_test'
OUT = '21KnydRNSmqAf8Py74mMiwRXYHGxW27zyDu'
WT = {'L': 'legacy', 'P': 'p2sh-segwit', 'S': 'segwit'}
COUNT = [0]


def split(c, s):
    return [] if s in ('-', '') else s.split(c)


def who_of(pub_hex, childs):
    return str(childs.index(pub_hex)) if pub_hex in childs else 'x'


def obs_state(t, per_addr_childs, in_addrs):
    parts = []
    for n, i in enumerate(t.inputs):
        childs = per_addr_childs[in_addrs[n]]
        h = t.signature_hash(i.index_n, i.hash_type, i.witness_type)
        toks = []
        for s in i.signatures:
            by = 'x'
            for k in i.keys:
                if copy.deepcopy(s).verify(h, k):
                    by = who_of(k.public_byte.hex(), childs)
                    break
            tag = '-' if not s.public_key else who_of(s.public_key.public_byte.hex(), childs)
            toks.append('%s:%s' % (by, tag))
        parts.append('+'.join(toks) if toks else '_')
    v = bool(t.verified)
    r = '|'.join(parts) + '=' + ('1' if v else '0')
    if bool(t.verify()) != v:
        r += '!'
    return r


def ceremony(t):
    (_, k, m, sort, given, coin, cpath, wallets, addrs, inputs, chains, seeds) = t
    wt = WT[k]
    m = int(m)
    sort = sort == '1'
    given = None if given == '-' else int(given)
    cpath = int(cpath)
    COUNT[0] += 1
    tagname = 'c10_%d_%d' % (os.getpid(), COUNT[0])
    hd = [HDKey.from_seed(bytes.fromhex(s), network=NW, witness_type=wt) for s in seeds.split(',')]
    per_addr_childs = [a.split(',') for a in addrs.split(';')]
    ws = []
    wpart = []
    for wi, wl in enumerate(wallets.split(';')):
        kl = []
        whos = []
        for e in wl.split(','):
            who, priv, _ = e.split(':')
            who = int(who)
            whos.append(who)
            kl.append(hd[who] if priv == '1' else hd[who].public_master(multisig=True, witness_type=wt))
        try:
            w = Wallet.create('%s_w%d' % (tagname, wi), kl, sigs_required=m, network=NW, witness_type=wt,
                              sort_keys=sort, cosigner_id=given,
                              db_uri='sqlite:///%s/%s_w%d.sqlite' % (os.getcwd(), tagname, wi))
        except Exception as ex:
            ws.append(None)
            wpart.append('ERR/' + type(ex).__name__)
            continue
        ws.append(w)
        # which participant's key each cosigner sub-wallet holds (by the supplied key's public bytes)
        sup = {kobj.public_byte: who for kobj, who in zip(kl, whos)}
        order = [str(sup.get(c.main_key.key().public_byte, 'x')) for c in w.cosigner]
        wpart.append('%s/%s' % (w.cosigner_id, '.'.join(order) if order else '-'))
    # keys / addresses / redeem scripts
    apart = []
    wkeys = []
    wutxos = []
    for w in ws:
        row = []
        wk_row = []
        if w is None:
            apart.append('ERR')
            wkeys.append(None)
            wutxos.append(None)
            continue
        for j, childs in enumerate(per_addr_childs):
            wk = w.key_for_path([], cosigner_id=cpath, change=0, address_index=j)
            wk_row.append(wk)
        w.utxos_update()
        all_utxos = w.utxos()
        wutxos.append([[x for x in all_utxos if x['address'] == wk.address] for wk in wk_row])
        for j, childs in enumerate(per_addr_childs):
            wk = wk_row[j]
            u = wutxos[-1][j][0]
            tx = w.transaction_create([(OUT, u['value'] - 40000)], [(u['txid'], u['output_n'], u['key_id'], u['value'])],
                                      fee=40000)
            i = tx.inputs[0]
            owners = '.'.join(who_of(kk.public_byte.hex(), childs) for kk in i.keys)
            p = wk.path
            p = p[2:] if p[:2] in ('m/', 'M/') else p
            row.append('%s/%s/%s/%s' % (i.redeemscript.hex() or '-', wk.address, owners, p))
        apart.append(','.join(row))
        wkeys.append(wk_row)
    # chains
    xpart = []
    for ci, ch in enumerate(split(';', chains)):
        obs = []
        tx = None
        in_addrs = [int(c) for c in inputs]
        try:
            for o in ch.split('.'):
                if o[0] == 'c':
                    w = ws[int(o[1:])]
                    used = {}
                    ins = []
                    tot = 0
                    for a in in_addrs:
                        u = wutxos[int(o[1:])][a][used.get(a, 0)]
                        used[a] = used.get(a, 0) + 1
                        ins.append((u['txid'], u['output_n'], u['key_id'], u['value']))
                        tot += u['value']
                    fee = 50000 + ci
                    tx = w.transaction_create([(OUT, tot - fee)], ins, fee=fee, random_output_order=False)
                    continue
                if o == 's':
                    tx.sign()
                    obs.append(obs_state(tx, per_addr_childs, in_addrs))
                elif o == 'p':
                    tx.send()
                    obs.append('P1' if tx.pushed else 'P0')
                else:
                    w = ws[int(o[1:])]
                    if o[0] == 'o':
                        tx = w.transaction_import(tx)
                    elif o[0] == 'd':
                        tx = w.transaction_import(tx.as_dict())
                    else:
                        tx = w.transaction_import_raw(tx.raw_hex())
                    obs.append(obs_state(tx, per_addr_childs, in_addrs))
        except Exception as ex:
            obs.append('EXC:' + type(ex).__name__)
        xpart.append(','.join(obs) if obs else '-')
    for w in ws:
        if w is not None:
            try:
                w.session.close()
            except Exception:
                pass
    return 'W:%s A:%s X:%s' % (';'.join(wpart), ';'.join(apart), ';'.join(xpart) if xpart else '-')


def dispatch(t):
    if t[0] == 'cer' and len(t) == 12:
        try:
            return ceremony(t)
        except Exception as ex:
            return 'CRASH %s %s' % (type(ex).__name__, str(ex)[:200].replace('\n', ' '))
    return 'BADREQ'


serve(dispatch)
