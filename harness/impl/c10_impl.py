"""Implementation adapter for C10: one multisig ceremony per request line, run with REAL cosigner wallets
(public API only), each wallet on its own sqlite file in the cwd, network bitcoinlib_test (offline provider).

request: cer K m sort given coin cpath wallets addrs inputs chains seeds
   (same line as the model driver's, plus the participants' seeds; the public keys in `wallets`/`addrs` were
    derived by the harness independently of the library and are used here ONLY to name keys by participant)
answer : W:<cosigner_id>/<cosigner order>;...  A:<redeemscript>/<address>/<owners>/<path>,...;...  X:<obs,...>;...

request: cer2 K m sort given coin cpath wallets addrs chains spends opts seeds
   chains   ops as above, every op (also the create op) yields an observation; kPR = sign(keys=[child private key of
            participant P for address row R]) in the wallet that holds the transaction
   given    "-" | one cosigner_id for every wallet | one entry per wallet (',', "-" = not passed)
   wallets  per wallet (';') the supplied keys (','): who:form:pubhex; form = how the key is handed to Wallet.create:
            M master private HDKey | m the same as WIF string | A account-level public HDKey (public_master) |
            a the same as WIF string | R account-level PRIVATE HDKey | r the same as WIF string
   addrs    per row (';'): change/address_index/childpub,childpub,...
   spends   per chain (';'): rows/rbf/locktime/fee/value+value+../number_of_change_outputs/sel
            rows = one digit per input (which address row it spends); sel = e (explicit input_arr) | a<min_confirms>
   opts     k=v pairs (';'): nw network, afs one bit per wallet (anti_fee_sniping), dst external destinations ('+'),
            uv / vstep=R:O amount of the unspent outputs: uv + R*row + O*ordinal (0:0 = ask the offline provider);
            on=i+i+.. output indices of the funded outputs (position 2*row+ordinal, cyclic), txm = shape of the funding txids
            (h one per output | s<tag> one for all | r<tag> one per row; suffix z / t / b: leading / trailing zero bytes);
            bc, dust, uv, conf are facts about the provider / network that only the model reads
answer : W:.. A:.. as above (one A cell per row)  U:<txid:n:value+..>,<row>,..;<wallet 1 or "=">;...
         X: per chain the observations; a state observation is <sigs>=<verified>~<raw hex>~<value:redeemscript|...>,
            and the create op yields one too; P0 / P1~<raw hex> for send()
Requests are independent of each other and are answered by a small pool of worker processes; every request has its
own wallet databases AND its own service-cache database (the shared default cache is not safe for concurrent writers).
"""
import sys, os, logging, copy, hashlib
sys.path.insert(0, os.path.dirname(os.path.abspath(__file__)))
logging.disable(logging.CRITICAL)
from bitcoinlib.wallets import Wallet
from bitcoinlib.keys import HDKey

NW = 'bitcoinlib_test'
OUT = '21KnydRNSmqAf8Py74mMiwRXYHGxW27zyDu'
WT = {'L': 'legacy', 'P': 'p2sh-segwit', 'S': 'segwit'}
COUNT = [0]
POOL = int(os.environ.get('C10_POOL', '6'))
MAINPID = os.getpid()        # forked workers inherit it: file names are unique per adapter process and request


def split(c, s):
    return [] if s in ('-', '') else s.split(c)


def who_of(pub_hex, childs):
    return str(childs.index(pub_hex)) if pub_hex in childs else 'x'


def obs_state(t, per_addr_childs, in_addrs):
    parts = []
    for n, i in enumerate(t.inputs):
        childs = per_addr_childs[in_addrs[n]]
        h = t.signature_hash(i.index_n, i.hash_type, i.witness_type)
        toks = []
        for s in i.signatures:
            by = 'x'
            for k in i.keys:
                if copy.deepcopy(s).verify(h, k):
                    by = who_of(k.public_byte.hex(), childs)
                    break
            tag = '-' if not s.public_key else who_of(s.public_key.public_byte.hex(), childs)
            toks.append('%s:%s' % (by, tag))
        parts.append('+'.join(toks) if toks else '_')
    v = bool(t.verified)
    r = '|'.join(parts) + '=' + ('1' if v else '0')
    if bool(t.verify()) != v:
        r += '!'
    return r


def ceremony(t, tagname):
    (_, k, m, sort, given, coin, cpath, wallets, addrs, inputs, chains, seeds) = t
    wt = WT[k]
    m = int(m)
    sort = sort == '1'
    given = None if given == '-' else int(given)
    cpath = int(cpath)
    hd = [HDKey.from_seed(bytes.fromhex(s), network=NW, witness_type=wt) for s in seeds.split(',')]
    per_addr_childs = [a.split(',') for a in addrs.split(';')]
    ws = []
    wpart = []
    for wi, wl in enumerate(wallets.split(';')):
        kl = []
        whos = []
        for e in wl.split(','):
            who, priv, _ = e.split(':')
            who = int(who)
            whos.append(who)
            kl.append(hd[who] if priv == '1' else hd[who].public_master(multisig=True, witness_type=wt))
        try:
            w = Wallet.create('%s_w%d' % (tagname, wi), kl, sigs_required=m, network=NW, witness_type=wt,
                              sort_keys=sort, cosigner_id=given,
                              db_uri='sqlite:///%s/%s_w%d.sqlite' % (os.getcwd(), tagname, wi),
                              db_cache_uri='sqlite:///%s/%s_cache.sqlite' % (os.getcwd(), tagname))
        except Exception as ex:
            ws.append(None)
            wpart.append('ERR/' + type(ex).__name__)
            continue
        ws.append(w)
        # which participant's key each cosigner sub-wallet holds (by the supplied key's public bytes)
        sup = {kobj.public_byte: who for kobj, who in zip(kl, whos)}
        order = [str(sup.get(c.main_key.key().public_byte, 'x')) for c in w.cosigner]
        wpart.append('%s/%s' % (w.cosigner_id, '.'.join(order) if order else '-'))
    # keys / addresses / redeem scripts
    apart = []
    wkeys = []
    wutxos = []
    for w in ws:
        row = []
        wk_row = []
        if w is None:
            apart.append('ERR')
            wkeys.append(None)
            wutxos.append(None)
            continue
        for j, childs in enumerate(per_addr_childs):
            wk = w.key_for_path([], cosigner_id=cpath, change=0, address_index=j)
            wk_row.append(wk)
        w.utxos_update()
        all_utxos = w.utxos()
        wutxos.append([[x for x in all_utxos if x['address'] == wk.address] for wk in wk_row])
        for j, childs in enumerate(per_addr_childs):
            wk = wk_row[j]
            u = wutxos[-1][j][0]
            tx = w.transaction_create([(OUT, u['value'] - 40000)], [(u['txid'], u['output_n'], u['key_id'], u['value'])],
                                      fee=40000)
            i = tx.inputs[0]
            owners = '.'.join(who_of(kk.public_byte.hex(), childs) for kk in i.keys)
            p = wk.path
            p = p[2:] if p[:2] in ('m/', 'M/') else p
            row.append('%s/%s/%s/%s' % (i.redeemscript.hex() or '-', wk.address, owners, p))
        apart.append(','.join(row))
        wkeys.append(wk_row)
    # chains
    xpart = []
    for ci, ch in enumerate(split(';', chains)):
        obs = []
        tx = None
        in_addrs = [int(c) for c in inputs]
        try:
            for o in ch.split('.'):
                if o[0] == 'c':
                    w = ws[int(o[1:])]
                    used = {}
                    ins = []
                    tot = 0
                    for a in in_addrs:
                        u = wutxos[int(o[1:])][a][used.get(a, 0)]
                        used[a] = used.get(a, 0) + 1
                        ins.append((u['txid'], u['output_n'], u['key_id'], u['value']))
                        tot += u['value']
                    fee = 50000 + ci
                    tx = w.transaction_create([(OUT, tot - fee)], ins, fee=fee, random_output_order=False)
                    continue
                if o == 's':
                    tx.sign()
                    obs.append(obs_state(tx, per_addr_childs, in_addrs))
                elif o == 'p':
                    tx.send()
                    obs.append('P1' if tx.pushed else 'P0')
                else:
                    w = ws[int(o[1:])]
                    if o[0] == 'o':
                        tx = w.transaction_import(tx)
                    elif o[0] == 'd':
                        tx = w.transaction_import(tx.as_dict())
                    else:
                        tx = w.transaction_import_raw(tx.raw_hex())
                    obs.append(obs_state(tx, per_addr_childs, in_addrs))
        except Exception as ex:
            obs.append('EXC:' + type(ex).__name__)
        xpart.append(','.join(obs) if obs else '-')
    for w in ws:
        if w is not None:
            try:
                w.session.close()
            except Exception:
                pass
    return 'W:%s A:%s X:%s' % (';'.join(wpart), ';'.join(apart), ';'.join(xpart) if xpart else '-')


# ---------------------------------------------------------------- cer2: creation parameters, key forms, networks
def supplied_key(hd, form, wt):
    if form == 'M':
        return hd
    if form == 'm':
        return hd.wif_private()
    if form in 'Aa':
        pub = hd.public_master(multisig=True, witness_type=wt)
        return pub if form == 'A' else pub.wif()
    prv = hd.public_master(multisig=True, witness_type=wt, as_private=True)
    return prv if form == 'R' else prv.wif_private()


def fake_utxos(address, row=0, uv=100000000, vstep=(0, 0), on=None, txm='h'):
    """two unspent outputs per address, handed to utxos_update(utxos=...) (same shape as the test provider's); the
    amount depends on the address row and the ordinal so that no two inputs of a spend carry the same amount.
    on: output indices of the funding outputs, taken cyclically at position 2 * row + ordinal (default: all 0);
    txm: shape of the funding txid: h = one funding transaction per output, s<tag> = ALL outputs belong to one funding
    transaction (the indices in `on` are then distinct), r<tag> = one funding transaction per address row, and a suffix
    z / t / b = the txid starts / ends / starts and ends with zero bytes"""
    out = []
    for n in range(2):
        if txm[0] == 's':
            h = hashlib.sha256(b'fund' + txm.encode()).hexdigest()
        elif txm[0] == 'r':
            h = hashlib.sha256(b'fund%d' % row + txm.encode()).hexdigest()
        else:
            h = hashlib.sha256(b'%d' % n + address.encode()).hexdigest()
        if txm[-1] in 'zb':
            h = '0000' + h[4:]
        if txm[-1] in 'tb':
            h = h[:-6] + '000000'
        o_n = on[(2 * row + n) % len(on)] if on else 0
        out.append({'address': address, 'txid': h, 'confirmations': 10, 'output_n': o_n, 'index': o_n,
                    'value': uv + vstep[0] * row + vstep[1] * n, 'script': ''})
    return out


def fields_of(t):
    """what the oracle reads: the serialised transaction, and the amount / script code the library holds per input"""
    return '%s~%s' % (t.raw_hex(), '|'.join('%d:%s' % (i.value, i.redeemscript.hex() or '-') for i in t.inputs))


def ceremony2(t, tagname):
    (_, k, m, sort, given, coin, cpath, wallets, addrs, chains, spends, opts, seeds) = t
    wt = WT[k]
    m = int(m)
    sort = sort == '1'
    cpath = int(cpath)
    opt = dict(e.split('=', 1) for e in split(';', opts))
    nw = opt.get('nw', NW)
    testnw = nw == NW
    wl_txt = wallets.split(';')
    afs = opt.get('afs', '1' * len(wl_txt))
    dst = split('+', opt.get('dst', OUT))
    uv = int(opt.get('uv', '100000000'))
    vstep = tuple(int(x) for x in opt.get('vstep', '0:0').split(':'))
    on = [int(x) for x in split('+', opt.get('on', '-'))]
    txm = opt.get('txm', 'h')
    if given == '-':
        givens = [None] * len(wl_txt)
    elif ',' in given:
        givens = [None if g == '-' else int(g) for g in given.split(',')]
    else:
        givens = [int(given)] * len(wl_txt)
    hd = [HDKey.from_seed(bytes.fromhex(s), network=nw, witness_type=wt) for s in seeds.split(',')]
    rows = []
    for a in addrs.split(';'):
        c, idx, pubs = a.split('/')
        rows.append((int(c), int(idx), pubs.split(',')))
    per_addr_childs = [r[2] for r in rows]
    ws = []
    wpart = []
    for wi, wl in enumerate(wl_txt):
        kl = []
        sup = {}
        try:
            for e in wl.split(','):
                who, form, _ = e.split(':')
                kobj = supplied_key(hd[int(who)], form, wt)
                kl.append(kobj)
            # anti_fee_sniping asks the provider for the block height: off where no offline provider exists
            w = Wallet.create('%s_w%d' % (tagname, wi), kl, sigs_required=m, network=nw, witness_type=wt,
                              sort_keys=sort, cosigner_id=givens[wi], anti_fee_sniping=(afs[wi] == '1') and testnw,
                              db_uri='sqlite:///%s/%s_w%d.sqlite' % (os.getcwd(), tagname, wi),
                              db_cache_uri='sqlite:///%s/%s_cache.sqlite' % (os.getcwd(), tagname))
        except Exception as ex:
            ws.append(None)
            wpart.append('ERR/' + type(ex).__name__)
            continue
        ws.append(w)
        for e in wl.split(','):
            who, form, _ = e.split(':')
            h = hd[int(who)]
            pb = h.public_byte if form in 'Mm' else h.public_master(multisig=True, witness_type=wt).public_byte
            sup[pb] = who
        order = [str(sup.get(c.main_key.key().public_byte, 'x')) for c in w.cosigner]
        wpart.append('%s/%s' % (w.cosigner_id, '.'.join(order) if order else '-'))
    apart = []
    upart = []
    wutxos = []
    for w in ws:
        row = []
        if w is None:
            apart.append('ERR')
            upart.append('ERR')
            wutxos.append(None)
            continue
        wk_row = [w.key_for_path([], cosigner_id=cpath, change=c, address_index=idx) for (c, idx, _) in rows]
        if testnw and vstep == (0, 0):
            w.utxos_update()
        else:
            w.utxos_update(utxos=[u for j, wk in enumerate(wk_row) for u in fake_utxos(wk.address, j, uv, vstep, on, txm)])
        all_utxos = w.utxos()
        mine = [sorted([x for x in all_utxos if x['address'] == wk.address], key=lambda x: x['value']) for wk in wk_row]
        wutxos.append(mine)
        utxt = ','.join('+'.join('%s:%d:%d' % (x['txid'], x['output_n'], x['value']) for x in r) or '-' for r in mine)
        upart.append('=' if upart and upart[0] == utxt else utxt)
        for j, (c, idx, childs) in enumerate(rows):
            wk = wk_row[j]
            try:
                u = mine[j][0]
                pfee = 2000000 if nw.startswith('dogecoin') else 40000
                tx = w.transaction_create([(wk.address, u['value'] - pfee)],
                                          [(u['txid'], u['output_n'], u['key_id'], u['value'])], fee=pfee)
                i = tx.inputs[0]
                owners = '.'.join(who_of(kk.public_byte.hex(), childs) for kk in i.keys)
                red = i.redeemscript.hex() or '-'
            except Exception as ex:
                owners, red = 'x', 'ERR' + type(ex).__name__
            p = wk.path
            p = p[2:] if p[:2] in ('m/', 'M/') else p
            row.append('%s/%s/%s/%s' % (red, wk.address, owners, p))
        apart.append(','.join(row))
    xpart = []
    sp_txt = split(';', spends)
    for ci, ch in enumerate(split(';', chains)):
        obs = []
        tx = None
        (srows, rbf, lock, fee, vals, nch, sel) = sp_txt[ci].split('/')
        in_addrs = [int(c) for c in srows]
        try:
            for o in ch.split('.'):
                if o[0] == 'c':
                    wi = int(o[1:])
                    w = ws[wi]
                    outs = [(dst[j % len(dst)], int(v)) for j, v in enumerate(vals.split('+'))]
                    kw = dict(fee=int(fee), locktime=int(lock), number_of_change_outputs=int(nch),
                              random_output_order=False, replace_by_fee=(rbf == '1'))
                    if sel == 'e':
                        used = {}
                        ins = []
                        for a in in_addrs:
                            u = wutxos[wi][a][used.get(a, 0)]
                            used[a] = used.get(a, 0) + 1
                            ins.append((u['txid'], u['output_n'], u['key_id'], u['value']))
                        tx = w.transaction_create(outs, ins, **kw)
                    else:
                        tx = w.transaction_create(outs, min_confirms=int(sel[1:]), **kw)
                        # which row each selected input spends (the model is told the rows, not the outpoints)
                        in_addrs = []
                        for i in tx.inputs:
                            hit = [j for j, r in enumerate(wutxos[wi]) for x in r
                                   if bytes.fromhex(x['txid']) == i.prev_txid and x['output_n'] == i.output_n_int]
                            in_addrs.append(hit[0])
                    obs.append(obs_state(tx, per_addr_childs, in_addrs) + '~' + fields_of(tx))
                elif o == 's':
                    tx.sign()
                    obs.append(obs_state(tx, per_addr_childs, in_addrs) + '~' + fields_of(tx))
                elif o == 'p':
                    tx.send()
                    obs.append(('P1~' + tx.raw_hex()) if tx.pushed else 'P0')
                elif o[0] == 'k':
                    # a cosigner signs with the child private key of ONE address (derived from his seed)
                    ch_, idx_, _ = rows[int(o[2])]
                    path = ("m/45'/%d/%d/%d" % (cpath, ch_, idx_)) if k == 'L' else \
                        ("m/48'/%s'/0'/%d'/%d/%d" % (coin, 1 if k == 'P' else 2, ch_, idx_))
                    tx.sign(keys=[hd[int(o[1])].subkey_for_path(path)])
                    obs.append(obs_state(tx, per_addr_childs, in_addrs) + '~' + fields_of(tx))
                else:
                    w = ws[int(o[1:])]
                    if o[0] == 'o':
                        tx = w.transaction_import(tx)
                    elif o[0] == 'd':
                        tx = w.transaction_import(tx.as_dict())
                    else:
                        tx = w.transaction_import_raw(tx.raw_hex())
                    obs.append(obs_state(tx, per_addr_childs, in_addrs) + '~' + fields_of(tx))
        except Exception as ex:
            obs.append('EXC:' + type(ex).__name__)
        xpart.append(','.join(obs) if obs else '-')
    for w in ws:
        if w is not None:
            try:
                w.session.close()
            except Exception:
                pass
    return 'W:%s A:%s U:%s X:%s' % (';'.join(wpart), ';'.join(apart), ';'.join(upart),
                                    ';'.join(xpart) if xpart else '-')


def dispatch(job):
    n, line = job
    t = line.strip().split(' ')
    tagname = 'c10_%d_%d' % (MAINPID, n)
    try:
        if t[0] == 'cer' and len(t) == 12:
            return ceremony(t, tagname)
        if t[0] == 'cer2' and len(t) == 13:
            return ceremony2(t, tagname)
    except RecursionError:
        return 'CRASH recursion'
    except Exception as ex:
        return 'CRASH %s %s' % (type(ex).__name__, str(ex)[:200].replace('\n', ' '))
    return 'BADREQ'


def main():
    lines = [l for l in sys.stdin.read().split('\n')]
    if lines and lines[-1] == '':
        lines.pop()
    jobs = list(enumerate(lines))
    out = sys.stdout
    if POOL > 1 and len(jobs) > 1:
        import multiprocessing
        ctx = multiprocessing.get_context('fork')
        # heavy requests first so that the pool drains evenly; answers are written in request order
        order = sorted(range(len(jobs)), key=lambda i: -len(lines[i]))
        with ctx.Pool(min(POOL, len(jobs))) as pool:
            res = pool.map(dispatch, [jobs[i] for i in order], 1)
        ans = [None] * len(jobs)
        for i, r in zip(order, res):
            ans[i] = r
    else:
        ans = [dispatch(j) for j in jobs]
    for r in ans:
        out.write(r + '\n')
    out.flush()


if __name__ == '__main__':
    main()
