"""Implementation adapter for C16 (public views and default exports never contain private key material).

Requests (model part first, implementation-only parameters after it):
  key <K|H> <kind> <ops> <secret hex> <network> <chain hex> <fmt>
  wk  <kind> <ops> <seed hex> <network>
  wallet <kind> <seed hex> <network>              (scan only)
  dbfile <seed hex> <network> [conf,conf,... [wt]] (scan of the raw sqlite bytes; meaning depends on the environment)
  wal <conf> <ops> <seed hex> <network> <witness type> <flags>
        wallet CONFIGURATION x HISTORY x every public-view entry point.  conf: master | acctprv | acctpub | single |
        singlepub, or ms:<c0>+<c1>[+<c2>]:<own cosigner id>.  Response tokens (compared with the wallet model):
        <ok|err>:<output taint>:<codes of wallet.main_key[/per cosigner wallet]>:<codes of the returned WalletKeys|->
  pvk <src> <secret hex> <chain hex> <network> <wt> <Entry>@<argspec>[;<argspec>...] ...
  pvw <conf> <seed hex> <network> <wt> <flags> <Entry>@<argspec>[;<argspec>...] ...
  rel <conf> <seed hex> <network> <wt> <flags> <loader>,<loader>,...   (scan only)
        histories that LOAD RELATIONSHIPS of the database rows first (WalletKey.key() of a multisig key, creating / signing
        a transaction, Wallet.keys(), direct access of multisig_children / multisig_parents / every relationship, one
        level deeper) and then take every default export; after every loader, every export is taken with the loader
        repeated right before it (an export may expire what the loader loaded).
        EVERY public-view entry point called with non-default ARGUMENTS (scan only).  argspec: '-' or
        ~name=value~name=value with value N | T | F | i<int> | s<text> | l<item,item> (list) | b<hex> (bytes).  Operations of key / wal histories may carry
        arguments in the same notation: Pm~.. (HDKey.public_master), Pmm~.. (public_master_multisig), Wp~.. (wif_public),
        Hw~.. (HDKey.wif), PmA~.. (Wallet.public_master).
Response: "<state tokens as the driver prints them> ## <leaks or ->"

A state token is  <ok|err>:<output taint P|S|->:<compressed 0|1>:<one code per attribute A|N|P|S>  where S means
"an encoding of a secret exponent known to the harness occurs in the value" (found by SCANNING the real value, see
needles()).  The leak list is the independent property-level scan: every default export after every step, and
for public views additionally pickle / deepcopy+walk / info() / as_dict(include_private=True)."""
import sys, os, io, re, json, copy, hmac, pickle, hashlib, logging, contextlib
sys.path.insert(0, os.path.dirname(os.path.abspath(__file__)))
logging.disable(logging.CRITICAL)
from bitcoinlib.keys import Key, HDKey, Address
from bitcoinlib.networks import NETWORK_DEFINITIONS

KEY_FIELDS = ["_address_obj", "_hash160", "_public_uncompressed_byte", "_public_uncompressed_hex", "_wif", "_wif_compressed",
              "_wif_prefix", "_x", "_y", "compressed", "is_private", "key_format", "network", "private_byte", "private_hex",
              "public_byte", "public_compressed_byte", "public_compressed_hex", "public_hex", "secret",
              "x_bytes", "x_hex", "y_bytes", "y_hex"]
HD_FIELDS = KEY_FIELDS + ["chain", "child_index", "depth", "encoding", "key_hex", "key_type", "multisig",
                          "parent_fingerprint", "script_type", "witness_type"]
WK_FIELDS = ["_balance", "_dbkey", "_hdkey_object", "_name", "account_id", "address", "address_index", "change",
             "compressed", "cosigner_id", "depth", "encoding", "is_private", "key_id", "key_private", "key_public",
             "key_type", "network", "network_name", "parent_id", "path", "purpose", "session", "used", "wallet",
             "wallet_id", "wif", "witness_type"]
HANDLES = {'session', '_session', '_dbkey', '_dbwallet', 'wallet', '_engine', 'db'}

# ------------------------------------------------------------------ independent encoders (no library code)
B58 = '123456789ABCDEFGHJKLMNPQRSTUVWXYZabcdefghijkmnopqrstuvwxyz'


def b58check(payload):
    data = payload + hashlib.sha256(hashlib.sha256(payload).digest()).digest()[:4]
    n = int.from_bytes(data, 'big')
    s = ''
    while n:
        n, r = divmod(n, 58)
        s = B58[r] + s
    pad = len(data) - len(data.lstrip(b'\0'))
    return '1' * pad + s


# FROZEN protocol constants (Bitcoin Core / Litecoin Core / Dogecoin Core chainparams SECRET_KEY and EXT_SECRET_KEY,
# SLIP-0132 private version bytes, plus the private rows of the library's own bitcoinlib_test network at the time of
# writing).  The needles are built for the UNION of this list and the table the library has loaded: an edited or
# removed row in networks.json does not blind the scan, and a row added there is searched for as well.
FROZEN_WIF_PREFIXES = ['80', '99', '9e', 'b0', 'ef', 'f1']
FROZEN_XPRV_PREFIXES = ['019d9cfe', '01b26792', '024285b5', '02575048', '0295b005', '02aa7a99', '02fac398', '04358394',
                        '0436ef7d', '044a4e28', '045f18bc', '0488ade4', '049d7878', '04b2430c', '2fffaddd', '2fffb300',
                        '2fffb500', '2fffb900', '2fffba00']
WIF_PREFIXES = sorted({bytes.fromhex(nw['prefix_wif']) for nw in NETWORK_DEFINITIONS.values()}
                      | {bytes.fromhex(p) for p in FROZEN_WIF_PREFIXES})
XPRV_PREFIXES = sorted({bytes.fromhex(r[0]) for nw in NETWORK_DEFINITIONS.values() for r in nw['prefixes_wif']
                        if r[2] == 'private'} | {bytes.fromhex(p) for p in FROZEN_XPRV_PREFIXES})
B58_RUN = re.compile(('[%s]{48,120}' % B58).encode())


def b58decode(tok):
    n = 0
    for ch in tok:
        n = n * 58 + B58.index(chr(ch))
    return n.to_bytes((n.bit_length() + 7) // 8, 'big')


def default_wt(network):
    """dogecoin-style networks define no segwit extended-key prefixes: HD keys there are created as legacy."""
    rows = NETWORK_DEFINITIONS[network]['prefixes_wif']
    return 'segwit' if any(r[4] == 'segwit' and not r[3] for r in rows) else 'legacy'


class Secrets:
    """every secret exponent (and the HD metadata it was seen with) the harness has handed to the library."""

    def __init__(self):
        self.needles = {}          # bytes -> label
        self.raw = set()           # the 32-byte exponents themselves

    def add(self, secret_int, hd=None):
        if not secret_int:
            return
        b = secret_int.to_bytes(32, 'big')
        self.raw.add(b)
        n = self.needles
        n.setdefault(b, 'raw32')
        n.setdefault(b[::-1], 'raw32-le')            # pickled Python ints are little-endian
        n.setdefault(b.hex().encode(), 'hex')
        n.setdefault(b.hex().upper().encode(), 'HEX')
        n.setdefault(('%x' % secret_int).encode(), 'hex-unpadded')
        n.setdefault(str(secret_int).encode(), 'decimal')
        for p in WIF_PREFIXES:
            n.setdefault(b58check(p + b + b'\1').encode(), 'wif-compressed/' + p.hex())
            n.setdefault(b58check(p + b).encode(), 'wif-uncompressed/' + p.hex())
        if hd is not None:
            depth, fpr, index, chain = hd
            n.setdefault(chain + b, 'chain||key')
            n.setdefault(b + chain, 'key||chain')
            n.setdefault((chain + b).hex().encode(), 'chain||key hex')
            n.setdefault((b + chain).hex().encode(), 'key||chain hex')
            body = bytes([depth & 0xff]) + fpr + (index & 0xffffffff).to_bytes(4, 'big') + chain + b'\0' + b
            for p in XPRV_PREFIXES:
                n.setdefault(b58check(p + body).encode(), 'xprv/' + p.hex())

    def add_key(self, k):
        if getattr(k, 'secret', None):
            hd = None
            if isinstance(k, HDKey) and k.chain:
                hd = (k.depth, k.parent_fingerprint, k.child_index, k.chain)
            self.add(k.secret, hd)

    def find(self, blob, extra=True):
        for nd, label in self.needles.items():
            if nd in blob and (extra or label != 'bip38'):
                return label
        # any base58 token (WIF / extended key with WHATEVER version bytes and metadata) that decodes to bytes
        # containing a secret exponent
        for m in B58_RUN.finditer(blob):
            try:
                d = b58decode(m.group(0))
            except Exception:
                continue
            for b in self.raw:
                if b in d:
                    return 'base58-token'
        return None

    def add_text(self, text, label):
        self.needles.setdefault(text.encode(), label)

    def merge(self, other):
        self.needles.update(other.needles)
        self.raw |= other.raw


def flatten(o, out, seen, depth=0):
    """all leaves of an object graph as bytes; database handles are not followed."""
    if id(o) in seen or depth > 12:
        return
    if o is None or isinstance(o, (bool, float)):
        return
    if isinstance(o, int):
        out.append(str(o).encode())
        if o > 1 << 64:
            out.append(('%064x' % o).encode())
        return
    if isinstance(o, (bytes, bytearray)):
        out.append(bytes(o))
        return
    if isinstance(o, str):
        out.append(o.encode('utf8', 'replace'))
        return
    seen.add(id(o))
    if isinstance(o, dict):
        for k, v in o.items():
            flatten(k, out, seen, depth + 1)
            flatten(v, out, seen, depth + 1)
        return
    if isinstance(o, (list, tuple, set, frozenset)):
        for v in o:
            flatten(v, out, seen, depth + 1)
        return
    if hasattr(o, '_sa_instance_state'):
        # a database row OBJECT inside an exported value (a loaded relationship in a row dictionary): it is not
        # followed, but what it PRINTS is part of the export (str(dict), json default=str, repr of the result)
        for f in (repr, str):
            try:
                out.append(f(o).encode('utf8', 'replace'))
            except Exception:
                pass
        return
    if type(o).__module__.startswith('sqlalchemy'):
        return
    d = getattr(o, '__dict__', None)
    if isinstance(d, dict):
        for k, v in d.items():
            if k in HANDLES:
                continue
            flatten(v, out, seen, depth + 1)
    for s in getattr(type(o), '__slots__', ()) or ():
        if hasattr(o, s):
            flatten(getattr(o, s), out, seen, depth + 1)


def blob_of(o):
    out = []
    flatten(o, out, set())
    return b'\0'.join(out)


def code_of(o, attr, sec, handle=False):
    d = o.__dict__
    if attr not in d:
        return 'A'
    v = d[attr]
    if v is None:
        return 'N'
    if handle:
        return 'P'
    return 'S' if sec.find(blob_of(v)) else 'P'


def captured(f):
    buf = io.StringIO()
    with contextlib.redirect_stdout(buf):
        f()
    return buf.getvalue()


# ------------------------------------------------------------------ arguments of view entry points
SECP_N = 0xFFFFFFFFFFFFFFFFFFFFFFFFFFFFFFFEBAAEDCE6AF48A03BBFD25E8CD0364141
ASKS_PRIVATE = ('as_private', 'include_private', 'is_private')       # frozen: parameter names that ask for private output


def decode_args(spec):
    """'-' | ~name=value~...   value: N | T | F | i<int> | s<text>"""
    kw = {}
    if spec in ('-', ''):
        return kw
    for item in spec.split('~'):
        if not item:
            continue
        k, v = item.split('=', 1)
        if v == 'N':
            kw[k] = None
        elif v == 'T':
            kw[k] = True
        elif v == 'F':
            kw[k] = False
        elif v[0] == 'i':
            kw[k] = int(v[1:])
        elif v[0] == 's':
            kw[k] = v[1:]
        elif v[0] == 'l':
            kw[k] = [x for x in v[1:].split(',')] if v[1:] else []
        elif v[0] == 'b':
            kw[k] = bytes.fromhex(v[1:])
        else:
            raise ValueError('argument value ' + v)
    return kw


def asks_private(kw):
    return any(kw.get(n) for n in ASKS_PRIVATE)


# FROZEN from BIP44 / BIP45 / BIP48 / BIP49 / BIP84: purpose and the hardened levels down to the key that is shared as
# "public master" (account level; for BIP45 the purpose level), per (witness type, multisig)
PM_PURPOSE = {('legacy', False): 44, ('p2sh-segwit', False): 49, ('segwit', False): 84,
              ('legacy', True): 45, ('p2sh-segwit', True): 48, ('segwit', True): 48}
PM_LEVELS = {('legacy', False): ('purpose', 'coin', 'account'), ('p2sh-segwit', False): ('purpose', 'coin', 'account'),
             ('segwit', False): ('purpose', 'coin', 'account'), ('legacy', True): ('purpose',),
             ('p2sh-segwit', True): ('purpose', 'coin', 'account', 'script1'),
             ('segwit', True): ('purpose', 'coin', 'account', 'script2')}


def ckd_priv_hardened(k, chain, index):
    """BIP32 CKDpriv for a hardened index, from the specification (stdlib only)."""
    i64 = hmac.new(chain, b'\0' + k.to_bytes(32, 'big') + (index | 0x80000000).to_bytes(4, 'big'), hashlib.sha512).digest()
    return (int.from_bytes(i64[:32], 'big') + k) % SECP_N, i64[32:]


def path_secrets(src, kw, sec, multisig_helper=False):
    """register every PRIVATE key on the way from src to the key public_master(**kw) shares (the account-level private
    key is private material too): derived here from the specification, and - when the library can do it - by the
    library itself (which also gives the extended-key metadata).  Returns the independently derived account secret."""
    if not (isinstance(src, HDKey) and src.is_private and src.secret and src.chain):
        return None
    wt = kw.get('witness_type') or src.witness_type
    ms = bool(multisig_helper or kw.get('multisig') or src.multisig)
    k, c, last = src.secret, src.chain, None
    if (wt, ms) in PM_LEVELS:
        for lv in PM_LEVELS[(wt, ms)]:
            idx = {'purpose': kw.get('purpose') or PM_PURPOSE[(wt, ms)], 'coin': src.network.bip44_cointype,
                   'account': kw.get('account_id') or 0, 'script1': 1, 'script2': 2}[lv]
            if not isinstance(idx, int) or not 0 <= idx < 0x80000000:
                break
            k, c = ckd_priv_hardened(k, c, idx)
            sec.add(k)
            sec.needles.setdefault(c + k.to_bytes(32, 'big'), 'chain||key')
            last = k
    try:
        kw2 = {n: v for n, v in kw.items() if n in ('account_id', 'purpose', 'multisig', 'witness_type')}
        if multisig_helper:
            kw2['multisig'] = True
        sec.add_key(copy.deepcopy(src).public_master(as_private=True, **kw2))
    except Exception:
        pass
    return last


def path_items(path):
    items = path.split('/') if isinstance(path, str) else list(path)
    if items and items[0] in ('m', 'M'):
        items = items[1:]
    return items


def subkey_path_secrets(priv, kw, sec):
    """register the PRIVATE key of every level of the path kw['path'] below the private twin `priv` of the source (the
    private children are private material of the public path request as well); derived by the library along the
    private path - the source secret itself is registered independently."""
    if not (isinstance(priv, HDKey) and priv.is_private):
        return
    try:
        items = path_items(kw.get('path'))
    except Exception:
        return
    for i in range(1, len(items) + 1):
        try:
            sec.add_key(copy.deepcopy(priv).subkey_for_path(['m'] + items[:i], network=kw.get('network')))
        except Exception:
            break


# ------------------------------------------------------------------ Key / HDKey histories
def make_key(cls, kind, secret, network, chain, fmt):
    s = int(secret, 16)
    b = s.to_bytes(32, 'big')
    base = Key(s, network=network)
    if cls == 'K':
        if kind in ('priv1', 'priv0'):
            c = kind == 'priv1'
            if fmt == 'decimal':
                return Key(s, network=network, compressed=c)
            if fmt == 'hex':
                return Key(b.hex(), network=network, compressed=c)
            if fmt == 'bin':
                return Key(b, network=network, compressed=c)
            if fmt == 'wif' and not (not c and b[-1] == 1):
                # (an uncompressed WIF whose secret ends in 0x01 is mis-parsed by Key() as a compressed WIF of a
                #  31-byte secret - an import defect that belongs to C12, kept out of these histories)
                return Key(Key(s, network=network, compressed=c).wif(), network=network)
            if fmt == 'wif':
                return Key(b.hex(), network=network, compressed=c)
            raise ValueError(fmt)
        if kind in ('point1', 'point0'):
            return Key((base.x, base.y), network=network, compressed=kind == 'point1')
        if kind == 'pubu':
            return Key(base.public_uncompressed_hex if fmt != 'bin' else base.public_uncompressed_byte, network=network)
        if kind == 'pubc':
            return Key(base.public_hex if fmt != 'bin' else base.public_byte, network=network)
    else:
        ch = bytes.fromhex(chain)
        wt = default_wt(network)
        if kind == 'priv1':
            if fmt == 'wif':
                x = HDKey(key=b, chain=ch, network=network, witness_type=wt).wif_private()
                return HDKey(x, network=network)
            if fmt == 'bin':
                return HDKey(b + ch, network=network, witness_type=wt)
            if fmt == 'single':
                return HDKey(key=b, chain=ch, network=network, witness_type=wt, key_type='single')
            if fmt == 'ms':
                return HDKey(key=b, chain=ch, network=network, witness_type=wt, multisig=True)
            if fmt == 'p2sh':
                return HDKey(key=b, chain=ch, network=network, witness_type='p2sh-segwit' if wt == 'segwit' else wt)
            if fmt == 'deep':
                # a key that already sits at account depth (depth 3, hardened index)
                return HDKey(key=b, chain=ch, network=network, witness_type=wt, depth=3, parent_fingerprint=b'\x12\x34\x56\x78',
                             child_index=0x80000000)
            return HDKey(key=b, chain=ch, network=network, witness_type=wt)
        if kind == 'priv0':
            return HDKey(Key(s, network=network, compressed=False), chain=ch, network=network, witness_type='legacy')
        if kind == 'pubc':
            if fmt == 'wif':
                return HDKey(HDKey(key=b, chain=ch, network=network, witness_type=wt).wif_public(), network=network)
            return HDKey(key=base.public_byte, chain=ch, is_private=False, network=network, witness_type=wt)
        if kind == 'pubu':
            return HDKey(base.public_uncompressed_hex, chain=ch, network=network, witness_type='legacy')
    raise ValueError('kind')


NO_EXPORT = {'Public', 'DeepCopy', 'Pickle', 'ChildPriv0', 'ChildPriv1', 'ChildPub', 'PublicMaster'}


def apply_op(o, op, sec, idx):
    """returns (new focus object, returned/printed value)."""
    hd = isinstance(o, HDKey)
    if op == 'Wif':
        return o, (o.wif_key() if hd else o.wif())
    if op == 'WifAlt':
        # the WIF for the version byte of ANOTHER network (explicit prefix argument)
        other = [p for p in WIF_PREFIXES if p != o.network.prefix_wif][idx % (len(WIF_PREFIXES) - 1)]
        return o, (o.wif_key(prefix=other) if hd else o.wif(prefix=other))
    if op == 'Address':
        return o, o.address()
    if op == 'AddressUnc':
        return o, o.address_uncompressed()
    if op == 'Hash160':
        return o, o.hash160
    if op == 'UncHex':
        return o, o.public_uncompressed_hex
    if op == 'UncByte':
        return o, o.public_uncompressed_byte
    if op == 'Point':
        return o, o.public_point()
    if op in ('AsDict0', 'AsDict1'):
        return o, o.as_dict(include_private=op[-1] == '1')
    if op in ('AsJson0', 'AsJson1'):
        return o, o.as_json(include_private=op[-1] == '1')
    if op == 'Info':
        return o, captured(o.info)
    if op == 'Repr':
        return o, repr(o)
    if op == 'Str':
        return o, str(o)
    if op == 'Encrypt':
        v = o.encrypt('verif-password')
        sec.add_text(v, 'bip38')              # the encrypted private key is private material as well
        return o, v
    if op == 'Public':
        return o.public(), None
    if op == 'DeepCopy':
        return copy.deepcopy(o), None
    if op == 'Pickle':
        return pickle.loads(pickle.dumps(o)), None
    if op in ('HdWif0', 'HdWif1'):
        return o, (o.wif_private() if op[-1] == '1' else o.wif_public())
    if op == 'Fingerprint':
        return o, o.fingerprint
    if op in ('ChildPriv0', 'ChildPriv1'):
        c = o.child_private(idx, hardened=op[-1] == '1')
        sec.add_key(c)
        return c, None
    if op == 'ChildPub':
        return o.child_public(idx), None
    if op.split('~')[0] in ('Pm', 'Pmm', 'Wp', 'Hw'):
        head = op.split('~')[0]
        kw = decode_args(op[len(head):])
        if head in ('Pm', 'Pmm'):
            path_secrets(o, kw, sec, multisig_helper=head == 'Pmm')
            r = o.public_master(**kw) if head == 'Pm' else o.public_master_multisig(**kw)
            sec.add_key(r) if asks_private(kw) else None
            return r, None
        return o, (o.wif_public(**kw) if head == 'Wp' else o.wif(**kw))
    if op == 'PublicMaster':
        # default arguments, another account, the multisig form, another witness type
        kw = [{}, {'account_id': idx}, {'multisig': True}, {'witness_type': 'p2sh-segwit'}][idx % 4]
        if default_wt(o.network.name) != 'segwit' or o.witness_type == 'legacy' or not o.compressed:
            kw = {k: v for k, v in kw.items() if k == 'account_id'}
        if o.is_private:
            sec.add_key(o.public_master(as_private=True, **kw))
        if kw.get('multisig') and idx % 8 == 2:
            return o.public_master_multisig(), None
        return o.public_master(**kw), None
    raise ValueError('op ' + op)


def default_export_leaks(o, sec, leaks, where):
    """as_dict() / as_json() / repr / str of a COPY (so the history is not disturbed)."""
    try:
        c = copy.deepcopy(o)
    except Exception as e:
        leaks.append('%s:deepcopy-failed:%s' % (where, type(e).__name__))
        return
    for name, f in (('as_dict', lambda: c.as_dict()), ('as_json', lambda: c.as_json()),
                    ('repr', lambda: repr(c)), ('str', lambda: str(c))):
        try:
            v = f()
        except Exception as e:
            leaks.append('%s:%s-raised:%s' % (where, name, type(e).__name__))
            continue
        hit = sec.find(blob_of(v))
        if hit:
            leaks.append('%s:%s:%s' % (where, name, hit))


def public_view_leaks(o, sec, leaks, where):
    """the complete object: pickle bytes, deep copy + attribute walk, info(), as_dict(include_private=True)."""
    try:
        hit = sec.find(pickle.dumps(o))
        if hit:
            leaks.append('%s:pickle:%s' % (where, hit))
        for proto in (0, 2):
            hit = sec.find(pickle.dumps(o, protocol=proto))
            if hit:
                leaks.append('%s:pickle%d:%s' % (where, proto, hit))
    except Exception as e:
        leaks.append('%s:pickle-failed:%s' % (where, type(e).__name__))
    c = copy.deepcopy(o)
    for a, v in sorted(c.__dict__.items()):
        hit = sec.find(blob_of(v))
        if hit:
            leaks.append('%s:attr %s:%s' % (where, a, hit))
    try:
        hit = sec.find(captured(c.info).encode())
        if hit:
            leaks.append('%s:info:%s' % (where, hit))
    except Exception as e:
        leaks.append('%s:info-raised:%s' % (where, type(e).__name__))
    c = copy.deepcopy(o)
    try:
        hit = sec.find(blob_of(c.as_dict(include_private=True)))
        if hit:
            leaks.append('%s:as_dict(include_private=True):%s' % (where, hit))
    except Exception:
        pass
    if isinstance(c, HDKey):
        for name, f in (('wif()', lambda: c.wif()), ('wif(is_private=True)', lambda: c.wif(is_private=True)),
                        ('wif_private()', lambda: c.wif_private())):
            try:
                hit = sec.find(f().encode())
                if hit:
                    leaks.append('%s:%s:%s' % (where, name, hit))
            except Exception:
                pass


def token(status, out, o, fields, sec):
    return '%s:%s:%s:%s' % (status, out, '1' if o.__dict__.get('compressed') else '0',
                            ''.join(code_of(o, a, sec, a in HANDLES) for a in fields))


def do_key(t):
    cls, kind, ops, secret, network, chain, fmt = t[1:8]
    sec = Secrets()
    o = make_key(cls, kind, secret, network, chain, fmt)
    s = int(secret, 16)
    sec.add(s, (o.depth, o.parent_fingerprint, o.child_index, o.chain) if isinstance(o, HDKey) else None)
    if isinstance(o, HDKey):
        sec.add(s, (0, b'\0\0\0\0', 0, bytes.fromhex(chain)))
    fields = HD_FIELDS if cls == 'H' else KEY_FIELDS
    is_public = not kind.startswith('priv')
    toks = [token('ok', '-', o, fields, sec)]
    leaks = []
    default_export_leaks(o, sec, leaks, '0')
    if is_public:
        public_view_leaks(o, sec, leaks, '0')
    for i, op in enumerate([] if ops == '-' else ops.split(',')):
        where = '%d/%s' % (i + 1, op)
        try:
            o, val = apply_op(o, op, sec, 1 + i)
            status = 'ok'
        except Exception as e:
            val, status = None, 'err'
        head = op.split('~')[0]
        if status == 'ok' and op in ('Public', 'ChildPub', 'PublicMaster'):
            is_public = True
        if status == 'ok' and head in ('Pm', 'Pmm'):
            # a key handed out by public_master / public_master_multisig is a public view unless the CALLER asked
            # for the private one (an asks-for-private argument that is true)
            is_public = is_public or not asks_private(decode_args(op[len(head):]))
        if status == 'ok' and op not in NO_EXPORT and head not in ('Pm', 'Pmm'):
            # (BIP38 encryption is a one-way step of the model: the value encrypt() itself returns is not a leak)
            out = 'S' if sec.find(blob_of(val), extra=op != 'Encrypt') else 'P'
        else:
            out = '-'
        toks.append(token(status, out, o, fields, sec))
        if out == 'S' and (op == 'HdWif0' or (head in ('Wp', 'Hw') and not asks_private(decode_args(op[len(head):])))):
            # the PUBLIC extended key (wif_public / wif without a request for the private form, whatever prefix) is a
            # public export by itself: secret material in the returned text is a failing input, not only a difference
            # from the model
            leaks.append('%s:returned public export:%s' % (where, sec.find(blob_of(val))))
        default_export_leaks(o, sec, leaks, where)
        if is_public:
            public_view_leaks(o, sec, leaks, where)
    return ' '.join(toks) + ' ## ' + (' | '.join(leaks) if leaks else '-')


# ------------------------------------------------------------------ wallets
_wallet_n = [0]


def db_uri(name=None):
    return 'sqlite:///' + os.path.abspath(name or 'c16_wallets_%d.sqlite' % os.getpid())


def wallet_secrets(w, sec):
    """every private key stored for this wallet (read through the ORM) with its extended-key metadata."""
    for row in w.keys():
        if row.private:
            s = int.from_bytes(row.private, 'big')
            hd = None
            try:
                h = HDKey.from_wif(row.wif, network=row.network_name)
                hd = (h.depth, h.parent_fingerprint, h.child_index, h.chain)
            except Exception:
                pass
            sec.add(s, hd)
    for cw in w.cosigner:
        wallet_secrets(cw, sec)


def make_wallet(kind, seed, network, uri=None):
    from bitcoinlib.wallets import Wallet
    _wallet_n[0] += 1
    name = 'w%d_%s' % (_wallet_n[0], kind)
    uri = uri or db_uri()
    wt = default_wt(network)
    master = HDKey.from_seed(bytes.fromhex(seed), network=network, witness_type=wt)
    sec = Secrets()
    sec.add_key(master)
    if kind == 'private':
        w = Wallet.create(name, keys=master, network=network, witness_type=wt, db_uri=uri)
    elif kind == 'legacy':
        master = HDKey.from_seed(bytes.fromhex(seed), network=network, witness_type='legacy')
        w = Wallet.create(name, keys=master, network=network, witness_type='legacy', db_uri=uri)
    elif kind == 'watch':
        acc = master.public_master(as_private=True)
        sec.add_key(acc)
        w = Wallet.create(name, keys=master.public_master().wif(), network=network, witness_type=wt, db_uri=uri)
    elif kind == 'single':
        k = HDKey(master.private_byte.hex(), network=network, witness_type=wt)
        sec.add_key(k)
        w = Wallet.create(name, keys=k, network=network, scheme='single', witness_type=wt, db_uri=uri)
    elif kind == 'multisig':
        other = HDKey.from_seed(hashlib.sha256(bytes.fromhex(seed)).digest(), network=network, multisig=True,
                                witness_type=wt)
        sec.add_key(other)
        m2 = HDKey.from_seed(bytes.fromhex(seed), network=network, multisig=True, witness_type=wt)
        w = Wallet.create(name, keys=[m2, other.public_master_multisig()], sigs_required=2, network=network,
                          witness_type=wt, db_uri=uri)
    else:
        raise ValueError(kind)
    w.get_key()
    if kind != 'single':
        w.new_key()
    wallet_secrets(w, sec)
    return w, sec, master


def wk_token(status, out, o, sec):
    return token(status, out, o, WK_FIELDS, sec)


def wk_leaks(o, sec, leaks, where, public_view):
    for name, f in (('as_dict', lambda: o.as_dict()), ('repr', lambda: repr(o)), ('str', lambda: str(o))):
        try:
            hit = sec.find(blob_of(f()))
            if hit:
                leaks.append('%s:%s:%s' % (where, name, hit))
        except Exception as e:
            leaks.append('%s:%s-raised:%s' % (where, name, type(e).__name__))
    if public_view:
        for a, v in sorted(o.__dict__.items()):
            if a in HANDLES:
                continue
            hit = sec.find(blob_of(v))
            if hit:
                leaks.append('%s:attr %s:%s' % (where, a, hit))
        h = o.__dict__.get('_hdkey_object')
        if isinstance(h, HDKey):
            hit = sec.find(pickle.dumps(h))
            if hit:
                leaks.append('%s:pickle(_hdkey_object):%s' % (where, hit))


def do_wk(t):
    from bitcoinlib.wallets import WalletKey
    kind, ops, seed, network = t[1:5]
    w, sec, master = make_wallet('watch' if kind.startswith('pub') else 'private', seed, network)
    if kind == 'priv1':
        o = w.get_key()
    elif kind == 'priv0':
        o = WalletKey(w.get_key().key_id, w.session)
    elif kind == 'pub1':
        o = w.get_key()
    elif kind == 'pub0':
        o = WalletKey(w.main_key_id, w.session)
    elif kind == 'addr':
        a = Address(Key(int(seed[:32], 16) + 1, network=network).public_byte, network=network)
        o = WalletKey.from_key('addr', w.wallet_id, w.session, key=a)
    else:
        raise ValueError(kind)
    toks = [wk_token('ok', '-', o, sec)]
    leaks = []
    is_public = kind in ('pub1', 'pub0', 'addr')
    wk_leaks(o, sec, leaks, '0', is_public)
    for i, op in enumerate([] if ops == '-' else ops.split(',')):
        where = '%d/%s' % (i + 1, op)
        val = None
        try:
            if op == 'Key':
                val = o.key()
            elif op == 'Public':
                o = o.public()
                is_public = True
            elif op in ('AsDict0', 'AsDict1'):
                val = o.as_dict(include_private=op[-1] == '1')
            elif op == 'Repr':
                val = repr(o)
            elif op == 'Balance':
                val = [o.balance(), o.balance(as_string=True)]
            elif op == 'Name':
                val = o.name
            else:
                raise ValueError(op)
            status = 'ok'
        except ValueError:
            raise
        except Exception:
            status = 'err'
        out = '-'
        if status == 'ok' and op != 'Public':
            out = 'S' if sec.find(blob_of(val)) else 'P'
        toks.append(wk_token(status, out, o, sec))
        wk_leaks(o, sec, leaks, where, is_public)
    return ' '.join(toks) + ' ## ' + (' | '.join(leaks) if leaks else '-')


def do_wallet(t):
    kind, seed, network = t[1:4]
    w, sec, master = make_wallet(kind, seed, network)
    leaks = []

    def chk(name, f, expect_clean=True):
        try:
            v = f()
        except Exception as e:
            leaks.append('%s-raised:%s:%s' % (name, type(e).__name__, str(e)[:60].replace('|', '/')))
            return None
        hit = sec.find(blob_of(v))
        if hit and expect_clean:
            leaks.append('%s:%s' % (name, hit))
        return hit

    chk('repr', lambda: repr(w))
    chk('str', lambda: str(w))
    chk('as_dict()', lambda: w.as_dict())
    chk('as_json()', lambda: w.as_json())
    for d in (0, 1, 2, 3, 4, 5):
        chk('info(detail=%d)' % d, lambda: captured(lambda: w.info(detail=d)))
    chk('wif()', lambda: w.wif())
    chk('wif(is_private=False)', lambda: w.wif(is_private=False))
    chk('keys(as_dict=True)', lambda: w.keys(as_dict=True))
    chk('addresslist', lambda: w.addresslist())
    chk('keys_addresses(as_dict)', lambda: [k.as_dict() for k in map(w.key, [r.id for r in w.keys_addresses()])])

    def pm():
        p = w.public_master()
        ps = p if isinstance(p, list) else [p]
        out = []
        for x in ps:
            d = {a: v for a, v in x.__dict__.items() if a not in HANDLES}
            out.append([d, repr(x), x.as_dict(), x.wif])
            k = x.key()
            out.append([k.__dict__ if not isinstance(k, list) else [y.__dict__ for y in k]])
            if not isinstance(k, list) and k is not None:
                out.append(pickle.dumps(k))
        return out
    chk('public_master()', pm)
    # ORM rows returned by Wallet.keys(): their repr is a default export of a key object as well
    chk('dbkey-repr', lambda: repr(w.keys()))
    # sensitivity control: the explicit private export must be FOUND by the same scan (non-vacuity)
    control = '-'
    if kind in ('private', 'legacy', 'single'):
        hit = chk('control', lambda: [w.wif(is_private=True), w.as_dict(include_private=True)], expect_clean=False)
        control = 'found' if hit else 'MISSED'
    elif kind == 'watch':
        control = 'n/a'
        chk('as_dict(include_private=True)', lambda: w.as_dict(include_private=True))
        chk('wif(is_private=True)', lambda: w.wif(is_private=True))
    # a transaction created and signed by the wallet (offline test network only)
    if network == 'bitcoinlib_test' and kind in ('private', 'legacy', 'single'):
        try:
            w.utxos_update()
            tx = w.send_to(w.get_key().address, 1000, broadcast=False)
            chk('transaction.as_dict()', lambda: tx.as_dict())
            chk('transaction.as_json()', lambda: tx.as_json())
            chk('transaction.repr', lambda: repr(tx))
            chk('transaction.info()', lambda: captured(tx.info))
            chk('transaction.raw_hex()', lambda: tx.raw_hex())
            chk('transaction.export()', lambda: tx.export())
        except Exception as e:
            leaks.append('transaction-flow-raised:%s:%s' % (type(e).__name__, str(e)[:60]))
    return 'ok control=%s ## %s' % (control, ' | '.join(leaks) if leaks else '-')


# ------------------------------------------------------------------ wallet CONFIGURATIONS x HISTORIES x VIEWS
SIMPLE_CONFS = ('master', 'acctprv', 'acctpub', 'single', 'singlepub')
WAL_EXPORT_OPS = {'MainKey', 'MainWif', 'MainWifKey', 'MainEncrypt', 'SrcKey', 'PmKey', 'Wif0', 'Wif1', 'AsDict0', 'AsDict1', 'AsJson0',
                  'AsJson1', 'Info', 'Repr'}
WAL_OTHER_OPS = {'GetKey', 'NewKey', 'Sign', 'NewAccount', 'NewKeyNet', 'NewKeyWt', 'ImportKey'}
WAL_PUBLIC_OPS = {'PmKey', 'Wif0', 'AsDict0', 'AsJson0', 'Info', 'Repr', 'Keys', 'Pm0', 'MainPublic'}


def conf_key(conf, seedbytes, network, wt, multisig, sec):
    """the key handed to Wallet.create for one configuration; every secret that exists is registered."""
    m = HDKey.from_seed(seedbytes, network=network, witness_type=wt, multisig=multisig)
    i64 = hmac.new(b'Bitcoin seed', seedbytes, hashlib.sha512).digest()        # BIP32 master, computed independently
    sec.add(int.from_bytes(i64[:32], 'big'), (0, b'\0\0\0\0', 0, i64[32:]))
    sec.add_key(m)
    if conf == 'master':
        return m
    if conf in ('acctprv', 'acctpub'):
        a = m.public_master(as_private=True)
        sec.add_key(a)
        return a if conf == 'acctprv' else m.public_master()
    if conf in ('single', 'singlepub'):
        k = HDKey(key=m.private_byte, chain=m.chain, network=network, witness_type=wt, multisig=multisig, key_type='single')
        sec.add_key(k)
        return k if conf == 'single' else k.public()
    raise ValueError('conf ' + conf)


def make_conf_wallet(conf, seed, network, wt, flags, uri=None):
    from bitcoinlib.wallets import Wallet
    _wallet_n[0] += 1
    name = 'c%d_%d' % (os.getpid(), _wallet_n[0])
    uri = uri or db_uri()
    sec = Secrets()
    sb = bytes.fromhex(seed)
    if conf.startswith('ms:'):
        _, cs, own = conf.split(':')
        cs = cs.split('+')
        keys = None
        # the keys are handed over in an order that sort_keys=True keeps, so cosigner ids are those of the request
        for attempt in range(400):
            s2 = Secrets()
            ks = [conf_key(c, hashlib.sha256(sb + bytes([i, attempt % 256, attempt // 256])).digest()[:16], network, wt,
                           True, s2) for i, c in enumerate(cs)]
            if [k.public_byte for k in ks] == sorted(k.public_byte for k in ks):
                keys = ks
                sec.merge(s2)
                break
        if 'w' in flags:
            keys = [k.wif(is_private=k.is_private, multisig=True) if k.key_type != 'single' else k for k in keys]
        w = Wallet.create(name, keys=keys, sigs_required=2 if 'n' not in flags else len(cs), network=network,
                          witness_type=wt, cosigner_id=int(own), db_uri=uri)
    elif 'i' in flags and conf == 'master':
        # a watch-only wallet (public account key) that gets its private master key imported afterwards
        m = conf_key('master', sb, network, wt, False, sec)
        sec.add_key(m.public_master(as_private=True))
        w = Wallet.create(name, keys=m.public_master(), network=network, witness_type=wt, db_uri=uri)
        w.get_key()
        w.import_master_key(m)
    elif 'm' in flags and conf == 'master':
        # passphrase + password: BIP39 seed and BIP32 master computed here from the specification (stdlib only)
        from bitcoinlib.mnemonic import Mnemonic
        phrase = Mnemonic().to_mnemonic(sb)
        pw = 'pw ' + seed[:6]
        sd = hashlib.pbkdf2_hmac('sha512', phrase.encode(), b'mnemonic' + pw.encode(), 2048)
        i64 = hmac.new(b'Bitcoin seed', sd, hashlib.sha512).digest()
        sec.add(int.from_bytes(i64[:32], 'big'), (0, b'\0\0\0\0', 0, i64[32:]))
        w = Wallet.create(name, keys=phrase, password=pw, network=network, witness_type=wt, db_uri=uri)
    else:
        k = conf_key(conf, sb, network, wt, False, sec)
        if 'w' in flags and conf not in ('single', 'singlepub'):
            k = k.wif(is_private=k.is_private)
        w = Wallet.create(name, keys=k, network=network, witness_type=wt, db_uri=uri,
                          scheme='single' if conf in ('single', 'singlepub') else 'bip32')
    wallet_secrets(w, sec)
    return w, sec, name, uri


def aslist(x):
    return x if isinstance(x, list) else [x]


def wal_main_codes(w, sec):
    ws = w.cosigner if (w.multisig and w.cosigner) else [w]
    return '/'.join(''.join(code_of(c.main_key, a, sec, a in HANDLES) for a in WK_FIELDS) if c.main_key is not None
                    else 'none' for c in ws)


def wk_graph(x):
    """everything reachable from a WalletKey presented as public, database handles excluded; the nested HDKey
    also through pickle, deepcopy and its own default exports."""
    out = [{a: v for a, v in x.__dict__.items() if a not in HANDLES}, repr(x), str(x), x.as_dict(), x.wif]
    c = copy.deepcopy(x)
    out.append({a: v for a, v in c.__dict__.items() if a not in HANDLES})
    h = x.__dict__.get('_hdkey_object')
    for k in (h if isinstance(h, list) else [h]):
        if isinstance(k, Key):
            out += [pickle.dumps(k), pickle.dumps(k, protocol=0), copy.deepcopy(k).__dict__, repr(k), str(k),
                    k.as_dict(), k.as_json()]
    return out


def hd_view_graph(k):
    """a Key / HDKey presented as public: attributes, pickle, deep copy, every export (the explicit private ones too:
    on a public view they have nothing to export)."""
    out = [k.__dict__, pickle.dumps(k), pickle.dumps(k, protocol=0), copy.deepcopy(k).__dict__, repr(k), str(k)]
    for f in (lambda: k.as_dict(), lambda: k.as_json(), lambda: captured(k.info), lambda: k.wif(),
              lambda: k.wif_public(), lambda: k.as_dict(include_private=True), lambda: k.wif(is_private=True),
              lambda: k.wif_private(), lambda: k.address(), lambda: k.address_obj.as_dict(),
              lambda: repr(k.address_obj), lambda: k.public().__dict__):
        try:
            out.append(f())
        except Exception:
            pass
    try:
        k2 = copy.deepcopy(k)
        k2.network_change('litecoin' if k.network.name != 'litecoin' else 'bitcoin')
        out += [k2.__dict__, k2.as_dict(), repr(k2), k2.wif(), pickle.dumps(k2)]
    except Exception:
        pass
    return out


def wal_apply(w, op, sec, name, uri):
    """one step of a wallet history: (wallet, exported value, returned WalletKeys or None)."""
    from bitcoinlib.wallets import Wallet
    tgt = w
    if op[0] == 'c' and '.' in op:
        i, op = op[1:].split('.')
        tgt = w.cosigner[int(i)]
    if op == 'MainKey':
        return w, tgt.main_key.key(), None
    if op == 'MainWif':
        return w, tgt.main_key.key().wif_private(), None
    if op == 'MainWifKey':
        k = tgt.main_key.key()
        other = [p for p in WIF_PREFIXES if p != k.network.prefix_wif][0]
        return w, [k.wif_key(), k.wif_key(prefix=other), k.wif(is_private=True, prefix=XPRV_PREFIXES[0])], None
    if op == 'MainEncrypt':
        v = tgt.main_key.key().encrypt('verif-password')
        sec.add_text(v, 'bip38')
        return w, v, None
    if op == 'SrcKey':
        return w, [x.key() for x in aslist(tgt.public_master(as_private=True))], None
    if op == 'MainPublic':
        return w, None, [tgt.main_key.public()]
    if op.split('~')[0] == 'PmA':
        return w, None, aslist(tgt.public_master(**decode_args(op[3:])))
    if op in ('Pm0', 'Pm1'):
        return w, None, aslist(tgt.public_master(as_private=op == 'Pm1') if op == 'Pm1' else tgt.public_master())
    if op == 'PmKey':
        return w, [x.key() for x in aslist(tgt.public_master())], None
    if op in ('Wif0', 'Wif1'):
        return w, (tgt.wif(is_private=True) if op == 'Wif1' else tgt.wif()), None
    if op in ('AsDict0', 'AsDict1'):
        return w, (tgt.as_dict(include_private=True) if op[-1] == '1' else tgt.as_dict()), None
    if op in ('AsJson0', 'AsJson1'):
        return w, (tgt.as_json(include_private=True) if op[-1] == '1' else tgt.as_json()), None
    if op == 'Info':
        return w, captured(lambda: tgt.info(detail=5)), None
    if op == 'Repr':
        return w, [repr(tgt), str(tgt)], None
    if op == 'GetKey':
        return w, tgt.get_key().as_dict(), None
    if op == 'NewKey':
        return w, tgt.new_key().as_dict(), None
    if op == 'Keys':
        return w, [tgt.keys(as_dict=True), tgt.keys_addresses(as_dict=True), tgt.addresslist()], None
    if op == 'NewAccount':
        return w, tgt.new_account().as_dict(), None
    if op == 'NewKeyNet':
        other = {'bitcoin': 'litecoin', 'litecoin': 'bitcoin', 'testnet': 'litecoin_testnet', 'litecoin_testnet': 'testnet',
                 'bitcoinlib_test': 'bitcoin', 'regtest': 'testnet', 'signet': 'testnet', 'testnet4': 'testnet'}
        return w, tgt.new_key(network=other[tgt.network.name]).as_dict(), None
    if op == 'NewKeyWt':
        wt2 = [x for x in ('legacy', 'p2sh-segwit', 'segwit') if x != tgt.witness_type][len(tgt.keys()) % 2]
        return w, tgt.new_key(witness_type=wt2).as_dict(), None
    if op == 'ImportKey':
        ik = HDKey(network=tgt.network.name, witness_type=tgt.witness_type)
        sec.add_key(ik)
        return w, tgt.import_key(ik.wif_key()).as_dict(), None
    if op == 'Sign':
        tgt.get_key()
        tgt.utxos_update()
        tx = tgt.send_to(tgt.get_key().address, 1000, broadcast=False)
        sec.tx = tx
        return w, [tx.as_dict(), tx.as_json(), repr(tx), captured(tx.info), tx.raw_hex(), tx.export()], None
    if op == 'Reopen':
        for x in [w] + list(w.cosigner):
            x.session.close()
        return Wallet(name, db_uri=uri), None, None
    raise ValueError('op ' + op)


def wallet_view_leaks(w, sec, leaks, tag, level=0):
    """EVERY public-view entry point of a wallet (and of its cosigner wallets), scanned for every secret."""
    def chk(what, f):
        try:
            v = f()
        except Exception as e:
            leaks.append('%s:%s-raised:%s:%s' % (tag, what, type(e).__name__, str(e)[:50].replace('|', '/')))
            return
        hit = sec.find(blob_of(v))
        if hit:
            leaks.append('%s:%s:%s' % (tag, what, hit))

    multi = bool(w.multisig and w.cosigner)
    chk('repr', lambda: [repr(w), str(w)])
    chk('as_dict()', lambda: w.as_dict())
    chk('as_json()', lambda: w.as_json())
    chk('as_dict(include_private=False)', lambda: w.as_dict(include_private=False))
    for d in (0, 3, 5):
        chk('info(detail=%d)' % d, lambda: captured(lambda: w.info(detail=d)))
    chk('wif()', lambda: w.wif())
    chk('wif(is_private=False)', lambda: w.wif(is_private=False))
    chk('keys(as_dict=True)', lambda: w.keys(as_dict=True))
    chk('keys(as_dict=True,is_private=True)', lambda: w.keys(as_dict=True, is_private=True))
    chk('keys_networks/accounts/addresses(as_dict=True)',
        lambda: [w.keys_networks(as_dict=True), w.keys_accounts(as_dict=True), w.keys_addresses(as_dict=True),
                 w.keys_address_payment(as_dict=True), w.keys_address_change(as_dict=True)])
    chk('addresslist', lambda: w.addresslist())
    chk('public_master()', lambda: [wk_graph(x) for x in aslist(w.public_master())])
    chk('public_master(as_private=False)', lambda: [wk_graph(x) for x in aslist(w.public_master(as_private=False))])
    chk('public_master(everything explicit)', lambda: [wk_graph(x) for x in aslist(w.public_master(
        account_id=w.default_account_id, name='pm', as_private=False, witness_type=w.witness_type))] if not multi else None)
    if level == 0:
        def wl():
            from bitcoinlib.wallets import wallets_list
            return wallets_list(db_uri=w.db_uri, include_cosigners=True)
        chk('wallets_list', wl)
    chk('public_master().key()', lambda: [[hd_view_graph(k) for k in aslist(x.key())] for x in aslist(w.public_master())])
    chk('public_master().public()', lambda: [wk_graph(x.public()) for x in aslist(w.public_master())])
    nets = [n.name for n in w.networks()]
    for n in nets:
        try:
            accs = w.accounts(network=n)
        except Exception:
            accs = [0]
        for a in accs[:3]:
            chk('public_master(account_id=%s,network=%s)' % (a, n),
                lambda: [wk_graph(x) for x in aslist(w.public_master(account_id=a, network=n))])
            chk('public_master(account_id=%s)' % a, lambda: [wk_graph(x) for x in aslist(w.public_master(account_id=a))])
            chk('wif(account_id=%s)' % a, lambda: w.wif(account_id=a))
    if not multi and w.main_key is not None:
        if w.main_key.is_private and w.main_key.depth == 0 and w.scheme == 'bip32':
            for wt2 in ('legacy', 'p2sh-segwit', 'segwit'):
                if wt2 != w.witness_type and default_wt(w.network.name) == 'segwit':
                    chk('public_master(witness_type=%s)' % wt2,
                        lambda: [wk_graph(x) for x in aslist(w.public_master(witness_type=wt2))])
        chk('main_key.public()', lambda: wk_graph(w.main_key.public()))
        chk('main_key.as_dict()/repr', lambda: [w.main_key.as_dict(), repr(w.main_key), str(w.main_key)])
        chk('main_key.key().public()', lambda: hd_view_graph(w.main_key.key().public()))
        chk('main_key.key() default exports', lambda: [w.main_key.key().as_dict(), w.main_key.key().as_json(),
                                                       repr(w.main_key.key()), str(w.main_key.key())])
        if w.scheme == 'bip32' and w.main_key.is_private:
            chk('main_key.key().public_master()', lambda: hd_view_graph(w.main_key.key().public_master()) if
                w.main_key.depth == 0 else None)
    # every wallet key: default exports and its public view
    rows = w.keys(is_active=False)
    for r in rows[:8] + rows[-2:]:
        def one(r=r):
            k = w.key(r.id)
            return [k.as_dict(), repr(k), str(k), wk_graph(k.public())]
        chk('key(%s)' % r.path, one)
    if 'account\'' in w.key_path and not multi:
        chk('account(0)', lambda: [w.account(0).as_dict(), repr(w.account(0)), wk_graph(w.account(0).public())])
    chk('transactions', lambda: [[t.as_dict(), repr(t), captured(t.info)] for t in w.transactions(include_new=True)[:3]])
    chk('transactions(as_dict)', lambda: w.transactions(include_new=True, as_dict=True)[:5])
    chk('utxos', lambda: w.utxos()[:5])
    if level == 0:
        for i, c in enumerate(w.cosigner):
            wallet_view_leaks(c, sec, leaks, '%s:cosigner%d' % (tag, i), level + 1)


def do_wal(t):
    conf, ops, seed, network, wt, flags = t[1:7]
    w, sec, name, uri = make_conf_wallet(conf, seed, network, wt, flags)
    toks = ['ok:-:%s:-' % wal_main_codes(w, sec)]
    leaks = []
    oplist = [] if ops == '-' else ops.split(',')
    for i, op in enumerate(oplist):
        where = '%d/%s' % (i + 1, op)
        base = op.split('.')[-1]
        val = ret = None
        try:
            w, val, ret = wal_apply(w, op, sec, name, uri)
            status = 'ok'
        except ValueError:
            raise
        except Exception as e:
            status = 'err'
            leaks.append('%s-raised:%s:%s' % (where, type(e).__name__, str(e)[:50].replace('|', '/')))
        if status == 'ok' and base == 'Reopen':
            wallet_secrets(w, sec)
        if status == 'ok' and (base in WAL_OTHER_OPS or base == 'Keys' or base.split('~')[0] == 'PmA'):
            # deriving / signing may or may not parse the cached main / account key objects again (it depends on
            # which rows exist already); the operation is made deterministic by parsing them here, which is what
            # the model's LOther does
            for c in (w.cosigner if (w.multisig and w.cosigner) else [w]):
                c.main_key.key()
                for x in aslist(c.public_master(as_private=True)):
                    x.key()
        taint = '-'
        if status == 'ok' and base in WAL_EXPORT_OPS:
            taint = 'S' if sec.find(blob_of(val)) else 'P'
        rc = '-'
        if status == 'ok' and ret is not None:
            rc = '/'.join(''.join(code_of(x, a, sec, a in HANDLES) for a in WK_FIELDS) for x in ret)
        toks.append('%s:%s:%s:%s' % (status, taint, wal_main_codes(w, sec), rc))
        if status == 'ok' and base.split('~')[0] == 'PmA':
            wallet_secrets(w, sec)          # a key of another account / network / witness type may have been created
        if status == 'ok' and (base in WAL_PUBLIC_OPS or base in WAL_OTHER_OPS or
                               (base.split('~')[0] == 'PmA' and not asks_private(decode_args(base[3:])))):
            hit = sec.find(blob_of(val)) if val is not None else None
            if hit:
                leaks.append('%s:%s' % (where, hit))
            for x in (ret or []):
                hit = sec.find(blob_of(wk_graph(x)))
                if hit:
                    leaks.append('%s:returned WalletKey:%s' % (where, hit))
    wallet_view_leaks(w, sec, leaks, 'views')
    # sensitivity control: the explicit private export of a wallet that holds a private key must be FOUND
    control = 'n/a'
    holders = [c for c in ([w] + list(w.cosigner)) if c.main_key is not None and c.main_key.is_private]
    if holders:
        hit = sec.find(blob_of([c.wif(is_private=True) for c in holders])) and \
            sec.find(blob_of([wk_graph(x) for c in holders for x in aslist(c.public_master(as_private=True))]))
        control = 'found' if hit else 'MISSED'
    for x in [w] + list(w.cosigner):
        x.session.close()
    return ' '.join(toks) + ' ## control=' + control + ' | ' + (' | '.join(leaks) if leaks else '-')


def do_dbfile(t):
    """create wallets on a FRESH sqlite file, close, scan the raw bytes.  With DB_FIELD_ENCRYPTION_KEY in the
    environment nothing may be found; without it the same scan must find the keys (sensitivity control)."""
    seed, network = t[1:3]
    confs = t[3].split(',') if len(t) > 3 and t[3] != '-' else []
    wt_extra = t[4] if len(t) > 4 else default_wt(network)
    import gc
    _wallet_n[0] += 1
    fn = 'c16_dbfile_%d_%d.sqlite' % (os.getpid(), _wallet_n[0])
    for ext in ('', '-journal', '-wal', '-shm'):
        if os.path.exists(fn + ext):
            os.remove(fn + ext)
    found = []
    sec_all = Secrets()
    from bitcoinlib.wallets import Wallet
    for kind in ('private', 'single', 'watch'):
        w, sec, master = make_wallet(kind, hashlib.sha256((seed + kind).encode()).hexdigest(), network, uri=db_uri(fn))
        if kind != 'watch':
            sec_all.merge(sec)
        # reopening must give the keys back (encryption is transparent to the API)
        if kind == 'private':
            name = w.name
            x1 = w.wif(is_private=True)
            w.session.close()
            w2 = Wallet(name, db_uri=db_uri(fn))
            if w2.wif(is_private=True) != x1:
                found.append('reopen-differs')
            w2.session.close()
            del w2
        w.session.close()
        w._engine.dispose() if getattr(w, '_engine', None) else None
        del w
    # further configurations in the same file: account-level private keys, multisig with own private keys ...
    for conf in confs:
        w, sec, name, uri = make_conf_wallet(conf, hashlib.sha256((seed + conf).encode()).hexdigest()[:32], network,
                                             wt_extra, '-', uri=db_uri(fn))
        sec_all.merge(sec)
        w.get_key()
        holders = [c for c in ([w] + list(w.cosigner)) if c.main_key is not None and c.main_key.is_private]
        x1 = [c.wif(is_private=True) for c in holders]
        w.public_master()
        for x in [w] + list(w.cosigner):
            x.session.close()
        w2 = Wallet(name, db_uri=uri)
        h2 = [c for c in ([w2] + list(w2.cosigner)) if c.main_key is not None and c.main_key.is_private]
        if [c.wif(is_private=True) for c in h2] != x1:
            found.append('reopen-differs:' + conf)
        for x in [w2] + list(w2.cosigner):
            x.session.close()
            x._engine.dispose() if getattr(x, '_engine', None) else None
        for x in [w] + list(w.cosigner):
            x._engine.dispose() if getattr(x, '_engine', None) else None
        del w, w2, holders, h2
    gc.collect()
    blob = b''
    for ext in ('', '-journal', '-wal', '-shm'):
        if os.path.exists(fn + ext):
            blob += open(fn + ext, 'rb').read()
    hits = sorted({label for nd, label in sec_all.needles.items() if nd in blob})
    if not hits:
        h = sec_all.find(blob)           # base58 tokens with version bytes the tables do not list
        hits = [h] if h else []
    enc = bool(os.environ.get('DB_FIELD_ENCRYPTION_KEY') or os.environ.get('DB_FIELD_ENCRYPTION_PASSWORD'))
    return 'ok enc=%d bytes=%d hits=%s%s' % (enc, len(blob), ','.join(h.split('/')[0] for h in hits) or '-',
                                               (' ' + ','.join(found)) if found else '')


def do_dbfile_enc(t):
    """same scan in a child process whose environment carries the field-encryption key / password (they are read
    when bitcoinlib.config is imported)."""
    import subprocess
    env = dict(os.environ)
    env.pop('DB_FIELD_ENCRYPTION_KEY', None)
    env.pop('DB_FIELD_ENCRYPTION_PASSWORD', None)
    if t[1] == 'key':
        env['DB_FIELD_ENCRYPTION_KEY'] = hashlib.sha256(('k' + t[2]).encode()).hexdigest()
    else:
        env['DB_FIELD_ENCRYPTION_PASSWORD'] = 'verif ' + t[2][:8]
    p = subprocess.run([sys.executable, os.path.abspath(__file__)], input='dbfile %s\n' % ' '.join(t[2:]),
                       stdout=subprocess.PIPE, stderr=subprocess.PIPE, text=True, env=env, timeout=600)
    lines = p.stdout.strip().split('\n')
    return lines[-1] if lines and lines[-1] else 'CRASH child: ' + p.stderr[-200:].replace('\n', ' ')


# ------------------------------------------------------------------ EVERY view entry point x ARGUMENT combinations
def result_graph(r):
    """everything reachable from what a view entry point returned."""
    if isinstance(r, (list, tuple)):
        return [result_graph(x) for x in r]
    if isinstance(r, Key):
        return hd_view_graph(r)
    if type(r).__name__ == 'WalletKey':
        return wk_graph(r) + [[hd_view_graph(k) for k in aslist(r.key()) if isinstance(k, Key)]]
    return r


def call_entry(obj, entry, kw):
    """the value the entry point returns; for one that prints (info) the printed text."""
    name = entry.split('.')[1]
    attr = getattr(type(obj), name, None)
    if isinstance(attr, property):
        return getattr(obj, name)
    buf = io.StringIO()
    with contextlib.redirect_stdout(buf):
        r = getattr(obj, name)(**kw)
    return r if r is not None else buf.getvalue()


def pv_run(entry, specs, fresh, shared, sec_base, leaks, secrets_for, per_spec=True):
    """call `entry` with every argument combination: on a fresh copy of the source (complete scan of the result) and,
    one after the other, on ONE shared object (scan of what it returns).  Sensitivity control: the same call with the
    asks-for-private parameter set must be FOUND by the same scan."""
    stats = {'ok': 0, 'raised': 0, 'control': 'n/a'}
    for spec in specs:
        kw = decode_args(spec)
        if per_spec:
            # (the private keys on the path of THIS call only: keeps the needle set small)
            sec = Secrets()
            sec.merge(sec_base)
        else:
            sec = sec_base
        secrets_for(kw, sec)
        for label, obj in (('fresh', fresh()), ('same-object', shared)):
            try:
                r = call_entry(obj, entry, kw)
            except Exception as e:
                stats['raised'] += 1
                continue
            stats['ok'] += 1
            if asks_private(kw):
                continue
            secrets_for(kw, sec)          # (keys the call itself created: another account / network / witness type)
            try:
                g = result_graph(r) if label == 'fresh' else [r.__dict__ if hasattr(r, '__dict__') else r,
                                                               pickle.dumps(r) if isinstance(r, Key) else None]
                hit = sec.find(blob_of(g))
            except Exception as e:
                leaks.append('%s(%s):%s:scan-failed:%s' % (entry, spec, label, type(e).__name__))
                continue
            if hit:
                leaks.append('%s(%s):%s:%s' % (entry, spec, label, hit))
    return stats


def pv_control(entry, params, fresh, sec_base, secrets_for):
    """the same scan FINDS the private material when the caller asks for it (for the entry points that can be asked)."""
    ask = [p for p in params if p in ASKS_PRIVATE]
    if entry == 'HDKey.subkey_for_path':
        ask, kw = ['path'], {'path': 'm/0'}          # the PRIVATE path of the same shape must be found
    if not ask:
        return 'n/a'
    if entry != 'HDKey.subkey_for_path':
        kw = {ask[0]: True}
    if entry == 'Wallet.keys':
        kw = {'include_private': True, 'as_dict': True}
    sec = Secrets()
    sec.merge(sec_base)
    secrets_for(kw, sec)
    try:
        r = call_entry(fresh(), entry, kw)
        return 'found' if sec.find(blob_of(result_graph(r))) else 'MISSED'
    except Exception as e:
        return 'raised:' + type(e).__name__


def entry_specs(tok):
    entry, specs = tok.split('@', 1)
    return entry, specs.split(';')


def entry_param_names(obj, entry):
    import inspect
    attr = getattr(type(obj), entry.split('.')[1], None)
    if attr is None or isinstance(attr, property):
        return []
    return [p for p in inspect.signature(attr).parameters if p != 'self']


def do_pvk(t):
    src, secret, chain, network, wt = t[1:6]
    b = bytes.fromhex(secret)
    ch = bytes.fromhex(chain)
    if default_wt(network) != 'segwit':
        wt = 'legacy'
    sec = Secrets()
    if src == 'key':
        base = Key(int(secret, 16), network=network)
    elif src == 'ms':
        base = HDKey(key=b, chain=ch, network=network, witness_type=wt, multisig=True)
    elif src == 'acct':
        base = HDKey(key=b, chain=ch, network=network, witness_type=wt, depth=3, parent_fingerprint=b'\x12\x34\x56\x78',
                     child_index=0x80000000)
    else:
        base = HDKey(key=b, chain=ch, network=network, witness_type=wt)
    sec.add_key(base)
    sec.add(int(secret, 16), (0, b'\0\0\0\0', 0, ch) if isinstance(base, HDKey) else None)
    twin = base                    # the private key the source is a view of (the source itself when it is private)
    if src in ('pub', 'pubwarm'):
        if src == 'pubwarm':
            base.wif_key(); base.wif_private(); base.as_dict(include_private=True); captured(base.info)
        base = base.public()
    elif src == 'pubm':
        path_secrets(base, {}, sec)
        twin = base.public_master(as_private=True)
        sec.add_key(twin)
        base = base.public_master()
    is_view = src in ('pub', 'pubwarm', 'pubm')
    if src == 'warm':
        # every cache an earlier private export can fill
        base.wif_key(); base.wif_private(); base.as_dict(include_private=True); captured(base.info); base.address()
        other = [p for p in WIF_PREFIXES if p != base.network.prefix_wif][0]
        base.wif_key(prefix=other)
    leaks, stats = [], []
    for tok in t[6:]:
        entry, specs = entry_specs(tok)
        helper = entry == 'HDKey.public_master_multisig'

        def secrets_for(kw, sec, helper=helper, entry=entry):
            if entry in ('HDKey.public_master', 'HDKey.public_master_multisig'):
                path_secrets(base, kw, sec, multisig_helper=helper)
            if entry == 'HDKey.subkey_for_path':
                subkey_path_secrets(twin, kw, sec)
        shared = copy.deepcopy(base)
        st = pv_run(entry, specs, lambda: copy.deepcopy(base), shared, sec, leaks, secrets_for)
        if is_view:
            st['control'] = 'n/a'      # (a source without private part has nothing the control could find)
        else:
            st['control'] = pv_control(entry, entry_param_names(base, entry), lambda: copy.deepcopy(base), sec, secrets_for)
        # the shared object itself is NOT a view (it is the private source), but its default exports stay clean
        default_export_leaks(shared, sec, leaks, entry + ':source-after-calls')
        stats.append('%s:ok=%d:raised=%d:control=%s' % (entry, st['ok'], st['raised'], st['control']))
    return 'ok %s ## %s' % (' '.join(stats), ' | '.join(leaks) if leaks else '-')


def do_pvw(t):
    conf, seed, network, wt, flags = t[1:6]
    w, sec, name, uri = make_conf_wallet(conf, seed, network, wt, flags)
    # warm the caches of the wallet and of its key objects with the explicit private exports first
    for c in [w] + list(w.cosigner):
        try:
            if c.main_key is not None:
                c.main_key.key()
                if c.main_key.is_private:
                    c.wif(is_private=True)
                    c.public_master(as_private=True)
        except Exception:
            pass
    leaks, stats = [], []
    seen_rows = set()

    def refresh(kw=None, s2=None):
        """private keys the calls themselves created (another account / network / witness type): new rows only."""
        for c in [w] + list(w.cosigner):
            for row in c.keys():
                if row.id in seen_rows:
                    continue
                seen_rows.add(row.id)
                if row.private:
                    hd = None
                    try:
                        h = HDKey.from_wif(row.wif, network=row.network_name)
                        hd = (h.depth, h.parent_fingerprint, h.child_index, h.chain)
                    except Exception:
                        pass
                    sec.add(int.from_bytes(row.private, 'big'), hd)
    refresh()
    for tok in t[6:]:
        entry, specs = entry_specs(tok)
        cls = entry.split('.')[0]
        targets = []
        if cls == 'Wallet':
            targets = [('', w)] + [(':cosigner%d' % i, c) for i, c in enumerate(w.cosigner)]
        elif cls == 'WalletKey':
            rows = w.keys(is_active=False)
            targets = [(':key(%s)' % r.path, None, r.id) for r in rows[:3] + rows[-1:]]
        st_all = {'ok': 0, 'raised': 0}
        control = 'n/a'
        for tg in targets:
            if cls == 'Wallet':
                tag, obj = tg
                fresh = (lambda obj=obj: obj)
                shared = obj
            else:
                tag, _, kid = tg
                fresh = (lambda kid=kid: w.key(kid))
                shared = w.key(kid)
            lk = []
            before = len(lk)
            st = pv_run(entry, specs, fresh, shared, sec, lk, refresh if entry == 'Wallet.public_master' else (lambda kw, s2: None),
                        per_spec=False)
            leaks += [x.replace(entry + '(', entry + tag + '(', 1) for x in lk]
            st_all['ok'] += st['ok']
            st_all['raised'] += st['raised']
            holder = (obj.main_key is not None and obj.main_key.is_private) if cls == 'Wallet' else shared.is_private
            if holder and not (cls == 'Wallet' and obj.multisig and obj.cosigner):
                refresh()
                c = pv_control(entry, entry_param_names(shared, entry), fresh, sec, lambda kw, s2: None)
                if control in ('n/a', 'found') and c != 'n/a':
                    control = c
        stats.append('%s:ok=%d:raised=%d:control=%s' % (entry, st_all['ok'], st_all['raised'], control))
    for x in [w] + list(w.cosigner):
        x.session.close()
    return 'ok %s ## %s' % (' '.join(stats), ' | '.join(leaks) if leaks else '-')


# ------------------------------------------------------------------ default exports AFTER relationships were loaded
def rel_load(w, name, state):
    """one step that may load relationships of the database rows into the session of wallet w."""
    from sqlalchemy import inspect as sa_inspect
    if name == 'none':
        return
    if name == 'getkey':
        k = w.get_key()
        k.key()
        return
    if name == 'keykey':
        for r in w.keys(is_active=False)[-6:]:
            w.key(r.id).key()
        return
    if name == 'wkeys':
        w.keys()
        w.keys_addresses()
        return
    if name in ('children', 'parents', 'allrel', 'deeprel'):
        for r in w.keys(is_active=False):
            names = {'children': ['multisig_children'], 'parents': ['multisig_parents']}.get(name) or \
                [x.key for x in sa_inspect(type(r)).relationships]
            for n in names:
                v = getattr(r, n)
                if name == 'deeprel':
                    for x in (v if isinstance(v, list) else [v]):
                        if x is not None and hasattr(x, '_sa_instance_state'):
                            for y in sa_inspect(type(x)).relationships:
                                getattr(x, y.key)
        return
    if name == 'tx':
        if state.get('tx') is None:
            k = w.get_key()
            w.utxos_update()
            state['tx'] = w.send_to(w.get_key().address, 1000, broadcast=False)
        else:
            w.transaction_create([(w.get_key().address, 900)])
        return
    if name == 'sign':
        if state.get('tx') is not None:
            state['tx'].sign()
        else:
            rel_load(w, 'tx', state)
        return
    if name == 'info':
        captured(lambda: w.info(detail=5))
        return
    if name == 'pm':
        w.public_master()
        return
    raise ValueError('loader ' + name)


def rel_exports(w, top=True):
    """every default export of a wallet: (label, thunk).  The value AND its text forms are scanned."""
    ex = [('as_json()', lambda: w.as_json()), ('str(as_dict())', lambda: str(w.as_dict())), ('as_dict()', lambda: w.as_dict()),
          ('keys(as_dict=True)', lambda: w.keys(as_dict=True)), ('str(keys(as_dict=True))', lambda: str(w.keys(as_dict=True))),
          ('keys(as_dict=True,is_active=False)', lambda: w.keys(as_dict=True, is_active=False)),
          ('keys_*(as_dict=True)', lambda: [w.keys_networks(as_dict=True), w.keys_accounts(as_dict=True),
                                           w.keys_addresses(as_dict=True), w.keys_address_payment(as_dict=True),
                                           w.keys_address_change(as_dict=True)]),
          ('repr', lambda: [repr(w), str(w)]),
          ('transactions as_dict/as_json', lambda: [[t.as_dict(), t.as_json(), repr(t)] for t in w.transactions(include_new=True)[:3]]),
          ('addresslist', lambda: w.addresslist())]
    if top:
        ex.append(('get_key().as_dict()', lambda: [w.get_key().as_dict(), repr(w.get_key())]))
    ex.append(('info(detail=5)', lambda: captured(lambda: w.info(detail=5))))
    return ex


def text_forms(v):
    out = [v]
    if not isinstance(v, str):
        for f in (str, repr, lambda x: json.dumps(x, default=str)):
            try:
                out.append(f(v))
            except Exception:
                pass
    return out


def do_rel(t):
    conf, seed, network, wt, flags, loaders = t[1:7]
    w, sec, name, uri = make_conf_wallet(conf, seed, network, wt, flags)
    w.get_key()
    wallet_secrets(w, sec)
    leaks = []
    n_exports = n_raised = 0
    # sensitivity control first (see the remark on info() below): the explicit private export must be FOUND
    control = 'n/a'
    holders = [c for c in ([w] + list(w.cosigner)) if c.main_key is not None and c.main_key.is_private]
    if holders:
        control = 'found' if sec.find(blob_of([text_forms(c.as_json(include_private=True)) for c in holders])) else 'MISSED'
    targets = [('', w)] + [(':cosigner%d' % i, c) for i, c in enumerate(w.cosigner)]
    lds = loaders.split(',')
    for tag, tgt in targets:
        state = {}
        done = []
        for li, ld in enumerate(lds):
            if (ld in ('tx', 'sign') and network != 'bitcoinlib_test') or (ld in ('tx', 'sign', 'getkey', 'keykey') and tag):
                continue
            done.append(ld)
            for label, f in rel_exports(tgt, not tag):
                if label.startswith('info') and state.get('tx') is not None:
                    # (info() of a wallet with transactions strips the ORM state from live row objects - as utxos() and
                    #  transactions(as_dict=True) do; with loaded relationships keeping them alive, later queries of the
                    #  session fail: a functional defect outside C16, so this export is taken at the end only)
                    continue
                where = '%s after %s%s' % (label, '+'.join(done), tag)
                try:
                    rel_load(tgt, ld, state)
                except ValueError:
                    raise
                except Exception as e:
                    leaks.append('%s:load-raised:%s:%s' % (where, type(e).__name__, str(e)[:50].replace('|', '/')))
                    n_raised += 1
                    break
                wallet_secrets(tgt, sec) if ld in ('tx', 'getkey') else None
                try:
                    v = f()
                except Exception as e:
                    leaks.append('%s-raised:%s:%s' % (where, type(e).__name__, str(e)[:50].replace('|', '/')))
                    n_raised += 1
                    continue
                n_exports += 1
                hit = sec.find(blob_of(text_forms(v)))
                if hit:
                    leaks.append('%s:%s' % (where, hit))
    # (Wallet.utxos() strips the ORM state from the live row objects it returns - later queries of the same session
    #  fail, and so does transactions(as_dict=True) - so they are taken last)
    for label, f in (('transactions(as_dict=True)', lambda: w.transactions(include_new=True, as_dict=True)),
                     ('utxos()', lambda: w.utxos()), ('info(detail=5)', lambda: captured(lambda: w.info(detail=5)))):
        try:
            hit = sec.find(blob_of(text_forms(f())))
            if hit:
                leaks.append('%s after %s:%s' % (label, loaders.replace(',', '+'), hit))
        except Exception as e:
            leaks.append('%s-raised:%s' % (label, type(e).__name__))
    for x in [w] + list(w.cosigner):
        x.session.close()
    return 'ok control=%s exports=%d raised=%d ## %s' % (control, n_exports, n_raised, ' | '.join(leaks) if leaks else '-')


def dispatch(t):
    if t[0] == 'pvk':
        return do_pvk(t)
    if t[0] == 'pvw':
        return do_pvw(t)
    if t[0] == 'rel':
        return do_rel(t)
    if t[0] == 'dbfile-enc':
        return do_dbfile_enc(t)
    if t[0] == 'key':
        return do_key(t)
    if t[0] == 'wk':
        return do_wk(t)
    if t[0] == 'wallet':
        return do_wallet(t)
    if t[0] == 'dbfile':
        return do_dbfile(t)
    if t[0] == 'wal':
        return do_wal(t)
    return 'BADREQ'


def answer(line):
    toks = line.strip().split(' ')
    try:
        return dispatch(toks)
    except Exception as e:
        import traceback
        return 'CRASH %s: %s @ %s' % (type(e).__name__, str(e)[:120].replace('\n', ' '),
                                      traceback.format_exc().strip().split('\n')[-3].strip()[:100])


POOLED = ('wal', 'wallet', 'wk', 'dbfile', 'dbfile-enc', 'pvw', 'pvk', 'rel')


def main():
    """one answer line per request line, in order.  Requests are independent of each other (every wallet request
    builds its own wallets in a sqlite file of its own process), so the wallet-level requests of a batch are
    spread over worker processes; VERIF_C16_WORKERS=1 switches that off."""
    out = sys.stdout
    lines = sys.stdin.read().split('\n')
    if lines and lines[-1] == '':
        lines.pop()
    workers = int(os.environ.get('VERIF_C16_WORKERS', '6'))
    heavy = [i for i, l in enumerate(lines) if l.split(' ', 1)[0] in POOLED]
    res = {}
    if workers > 1 and len(heavy) >= 8:
        import multiprocessing
        ctx = multiprocessing.get_context('fork')
        with ctx.Pool(workers) as pool:
            it = pool.imap(answer, [lines[i] for i in heavy], chunksize=1)
            # the key histories run here while the workers are busy
            for i, l in enumerate(lines):
                if i not in res and l.split(' ', 1)[0] not in POOLED:
                    res[i] = answer(l)
            for i, r in zip(heavy, it):
                res[i] = r
    for i, l in enumerate(lines):
        if i not in res:
            res[i] = answer(l)
        out.write(res[i] + '\n')
    out.flush()


if __name__ == '__main__':
    main()
