"""Implementation adapter for C16 (public views and default exports never contain private key material).

Requests (model part first, implementation-only parameters after it):
  key <K|H> <kind> <ops> <secret hex> <network> <chain hex> <fmt>
  wk  <kind> <ops> <seed hex> <network>
  wallet <kind> <seed hex> <network>              (scan only)
  dbfile <seed hex> <network>                     (scan of the raw sqlite bytes; meaning depends on the environment)
Response: "<state tokens as the driver prints them> ## <leaks or ->"

A state token is  <ok|err>:<output taint P|S|->:<compressed 0|1>:<one code per attribute A|N|P|S>  where S means
"an encoding of a secret exponent known to the harness occurs in the value" (found by SCANNING the real value, see
needles()).  The leak list is the independent property-level scan: every default export after every step, and
for public views additionally pickle / deepcopy+walk / info() / as_dict(include_private=True)."""
import sys, os, io, json, copy, pickle, hashlib, logging, contextlib
sys.path.insert(0, os.path.dirname(os.path.abspath(__file__)))
logging.disable(logging.CRITICAL)
from bitcoinlib.keys import Key, HDKey, Address
from bitcoinlib.networks import NETWORK_DEFINITIONS

KEY_FIELDS = ["_address_obj", "_hash160", "_public_uncompressed_byte", "_public_uncompressed_hex", "_wif", "_wif_prefix",
              "_x", "_y", "compressed", "is_private", "key_format", "network", "private_byte", "private_hex",
              "public_byte", "public_compressed_byte", "public_compressed_hex", "public_hex", "secret",
              "x_bytes", "x_hex", "y_bytes", "y_hex"]
HD_FIELDS = KEY_FIELDS + ["chain", "child_index", "depth", "encoding", "key_hex", "key_type", "multisig",
                          "parent_fingerprint", "script_type", "witness_type"]
WK_FIELDS = ["_balance", "_dbkey", "_hdkey_object", "_name", "account_id", "address", "address_index", "change",
             "compressed", "cosigner_id", "depth", "encoding", "is_private", "key_id", "key_private", "key_public",
             "key_type", "network", "network_name", "parent_id", "path", "purpose", "session", "used", "wallet",
             "wallet_id", "wif", "witness_type"]
HANDLES = {'session', '_session', '_dbkey', '_dbwallet', 'wallet', '_engine', 'db'}

# ------------------------------------------------------------------ independent encoders (no library code)
B58 = '123456789ABCDEFGHJKLMNPQRSTUVWXYZabcdefghijkmnopqrstuvwxyz'


def b58check(payload):
    data = payload + hashlib.sha256(hashlib.sha256(payload).digest()).digest()[:4]
    n = int.from_bytes(data, 'big')
    s = ''
    while n:
        n, r = divmod(n, 58)
        s = B58[r] + s
    pad = len(data) - len(data.lstrip(b'\0'))
    return '1' * pad + s


WIF_PREFIXES = sorted({bytes.fromhex(nw['prefix_wif']) for nw in NETWORK_DEFINITIONS.values()})
XPRV_PREFIXES = sorted({bytes.fromhex(r[0]) for nw in NETWORK_DEFINITIONS.values() for r in nw['prefixes_wif']
                        if r[2] == 'private'})


def default_wt(network):
    """dogecoin-style networks define no segwit extended-key prefixes: HD keys there are created as legacy."""
    rows = NETWORK_DEFINITIONS[network]['prefixes_wif']
    return 'segwit' if any(r[4] == 'segwit' and not r[3] for r in rows) else 'legacy'


class Secrets:
    """every secret exponent (and the HD metadata it was seen with) the harness has handed to the library."""

    def __init__(self):
        self.needles = {}          # bytes -> label

    def add(self, secret_int, hd=None):
        if not secret_int:
            return
        b = secret_int.to_bytes(32, 'big')
        n = self.needles
        n.setdefault(b, 'raw32')
        n.setdefault(b[::-1], 'raw32-le')            # pickled Python ints are little-endian
        n.setdefault(b.hex().encode(), 'hex')
        n.setdefault(b.hex().upper().encode(), 'HEX')
        n.setdefault(('%x' % secret_int).encode(), 'hex-unpadded')
        n.setdefault(str(secret_int).encode(), 'decimal')
        for p in WIF_PREFIXES:
            n.setdefault(b58check(p + b + b'\1').encode(), 'wif-compressed/' + p.hex())
            n.setdefault(b58check(p + b).encode(), 'wif-uncompressed/' + p.hex())
        if hd is not None:
            depth, fpr, index, chain = hd
            n.setdefault(chain + b, 'chain||key')
            n.setdefault(b + chain, 'key||chain')
            n.setdefault((chain + b).hex().encode(), 'chain||key hex')
            n.setdefault((b + chain).hex().encode(), 'key||chain hex')
            body = bytes([depth & 0xff]) + fpr + (index & 0xffffffff).to_bytes(4, 'big') + chain + b'\0' + b
            for p in XPRV_PREFIXES:
                n.setdefault(b58check(p + body).encode(), 'xprv/' + p.hex())

    def add_key(self, k):
        if getattr(k, 'secret', None):
            hd = None
            if isinstance(k, HDKey) and k.chain:
                hd = (k.depth, k.parent_fingerprint, k.child_index, k.chain)
            self.add(k.secret, hd)

    def find(self, blob):
        for nd, label in self.needles.items():
            if nd in blob:
                return label
        return None


def flatten(o, out, seen, depth=0):
    """all leaves of an object graph as bytes; database handles are not followed."""
    if id(o) in seen or depth > 12:
        return
    if o is None or isinstance(o, (bool, float)):
        return
    if isinstance(o, int):
        out.append(str(o).encode())
        if o > 1 << 64:
            out.append(('%064x' % o).encode())
        return
    if isinstance(o, (bytes, bytearray)):
        out.append(bytes(o))
        return
    if isinstance(o, str):
        out.append(o.encode('utf8', 'replace'))
        return
    seen.add(id(o))
    if isinstance(o, dict):
        for k, v in o.items():
            flatten(k, out, seen, depth + 1)
            flatten(v, out, seen, depth + 1)
        return
    if isinstance(o, (list, tuple, set, frozenset)):
        for v in o:
            flatten(v, out, seen, depth + 1)
        return
    if hasattr(o, '_sa_instance_state') or type(o).__module__.startswith('sqlalchemy'):
        return
    d = getattr(o, '__dict__', None)
    if isinstance(d, dict):
        for k, v in d.items():
            if k in HANDLES:
                continue
            flatten(v, out, seen, depth + 1)
    for s in getattr(type(o), '__slots__', ()) or ():
        if hasattr(o, s):
            flatten(getattr(o, s), out, seen, depth + 1)


def blob_of(o):
    out = []
    flatten(o, out, set())
    return b'\0'.join(out)


def code_of(o, attr, sec, handle=False):
    d = o.__dict__
    if attr not in d:
        return 'A'
    v = d[attr]
    if v is None:
        return 'N'
    if handle:
        return 'P'
    return 'S' if sec.find(blob_of(v)) else 'P'


def captured(f):
    buf = io.StringIO()
    with contextlib.redirect_stdout(buf):
        f()
    return buf.getvalue()


# ------------------------------------------------------------------ Key / HDKey histories
def make_key(cls, kind, secret, network, chain, fmt):
    s = int(secret, 16)
    b = s.to_bytes(32, 'big')
    base = Key(s, network=network)
    if cls == 'K':
        if kind in ('priv1', 'priv0'):
            c = kind == 'priv1'
            if fmt == 'decimal':
                return Key(s, network=network, compressed=c)
            if fmt == 'hex':
                return Key(b.hex(), network=network, compressed=c)
            if fmt == 'bin':
                return Key(b, network=network, compressed=c)
            if fmt == 'wif' and not (not c and b[-1] == 1):
                # (an uncompressed WIF whose secret ends in 0x01 is mis-parsed by Key() as a compressed WIF of a
                #  31-byte secret - an import defect that belongs to C12, kept out of these histories)
                return Key(Key(s, network=network, compressed=c).wif(), network=network)
            if fmt == 'wif':
                return Key(b.hex(), network=network, compressed=c)
            raise ValueError(fmt)
        if kind in ('point1', 'point0'):
            return Key((base.x, base.y), network=network, compressed=kind == 'point1')
        if kind == 'pubu':
            return Key(base.public_uncompressed_hex if fmt != 'bin' else base.public_uncompressed_byte, network=network)
        if kind == 'pubc':
            return Key(base.public_hex if fmt != 'bin' else base.public_byte, network=network)
    else:
        ch = bytes.fromhex(chain)
        wt = default_wt(network)
        if kind == 'priv1':
            if fmt == 'wif':
                x = HDKey(key=b, chain=ch, network=network, witness_type=wt).wif_private()
                return HDKey(x, network=network)
            if fmt == 'bin':
                return HDKey(b + ch, network=network, witness_type=wt)
            return HDKey(key=b, chain=ch, network=network, witness_type=wt)
        if kind == 'priv0':
            return HDKey(Key(s, network=network, compressed=False), chain=ch, network=network, witness_type='legacy')
        if kind == 'pubc':
            if fmt == 'wif':
                return HDKey(HDKey(key=b, chain=ch, network=network, witness_type=wt).wif_public(), network=network)
            return HDKey(key=base.public_byte, chain=ch, is_private=False, network=network, witness_type=wt)
        if kind == 'pubu':
            return HDKey(base.public_uncompressed_hex, chain=ch, network=network, witness_type='legacy')
    raise ValueError('kind')


NO_EXPORT = {'Public', 'DeepCopy', 'Pickle', 'ChildPriv0', 'ChildPriv1', 'ChildPub', 'PublicMaster'}


def apply_op(o, op, sec, idx):
    """returns (new focus object, returned/printed value)."""
    hd = isinstance(o, HDKey)
    if op == 'Wif':
        return o, (o.wif_key() if hd else o.wif())
    if op == 'Address':
        return o, o.address()
    if op == 'AddressUnc':
        return o, o.address_uncompressed()
    if op == 'Hash160':
        return o, o.hash160
    if op == 'UncHex':
        return o, o.public_uncompressed_hex
    if op == 'UncByte':
        return o, o.public_uncompressed_byte
    if op == 'Point':
        return o, o.public_point()
    if op in ('AsDict0', 'AsDict1'):
        return o, o.as_dict(include_private=op[-1] == '1')
    if op in ('AsJson0', 'AsJson1'):
        return o, o.as_json(include_private=op[-1] == '1')
    if op == 'Info':
        return o, captured(o.info)
    if op == 'Repr':
        return o, repr(o)
    if op == 'Str':
        return o, str(o)
    if op == 'Encrypt':
        return o, o.encrypt('verif-password')
    if op == 'Public':
        return o.public(), None
    if op == 'DeepCopy':
        return copy.deepcopy(o), None
    if op == 'Pickle':
        return pickle.loads(pickle.dumps(o)), None
    if op in ('HdWif0', 'HdWif1'):
        return o, (o.wif_private() if op[-1] == '1' else o.wif_public())
    if op == 'Fingerprint':
        return o, o.fingerprint
    if op in ('ChildPriv0', 'ChildPriv1'):
        c = o.child_private(idx, hardened=op[-1] == '1')
        sec.add_key(c)
        return c, None
    if op == 'ChildPub':
        return o.child_public(idx), None
    if op == 'PublicMaster':
        if o.is_private:
            sec.add_key(o.public_master(as_private=True))
        return o.public_master(), None
    raise ValueError('op ' + op)


def default_export_leaks(o, sec, leaks, where):
    """as_dict() / as_json() / repr / str of a COPY (so the history is not disturbed)."""
    try:
        c = copy.deepcopy(o)
    except Exception as e:
        leaks.append('%s:deepcopy-failed:%s' % (where, type(e).__name__))
        return
    for name, f in (('as_dict', lambda: c.as_dict()), ('as_json', lambda: c.as_json()),
                    ('repr', lambda: repr(c)), ('str', lambda: str(c))):
        try:
            v = f()
        except Exception as e:
            leaks.append('%s:%s-raised:%s' % (where, name, type(e).__name__))
            continue
        hit = sec.find(blob_of(v))
        if hit:
            leaks.append('%s:%s:%s' % (where, name, hit))


def public_view_leaks(o, sec, leaks, where):
    """the complete object: pickle bytes, deep copy + attribute walk, info(), as_dict(include_private=True)."""
    try:
        hit = sec.find(pickle.dumps(o))
        if hit:
            leaks.append('%s:pickle:%s' % (where, hit))
        for proto in (0, 2):
            hit = sec.find(pickle.dumps(o, protocol=proto))
            if hit:
                leaks.append('%s:pickle%d:%s' % (where, proto, hit))
    except Exception as e:
        leaks.append('%s:pickle-failed:%s' % (where, type(e).__name__))
    c = copy.deepcopy(o)
    for a, v in sorted(c.__dict__.items()):
        hit = sec.find(blob_of(v))
        if hit:
            leaks.append('%s:attr %s:%s' % (where, a, hit))
    try:
        hit = sec.find(captured(c.info).encode())
        if hit:
            leaks.append('%s:info:%s' % (where, hit))
    except Exception as e:
        leaks.append('%s:info-raised:%s' % (where, type(e).__name__))
    c = copy.deepcopy(o)
    try:
        hit = sec.find(blob_of(c.as_dict(include_private=True)))
        if hit:
            leaks.append('%s:as_dict(include_private=True):%s' % (where, hit))
    except Exception:
        pass
    if isinstance(c, HDKey):
        for name, f in (('wif()', lambda: c.wif()), ('wif(is_private=True)', lambda: c.wif(is_private=True)),
                        ('wif_private()', lambda: c.wif_private())):
            try:
                hit = sec.find(f().encode())
                if hit:
                    leaks.append('%s:%s:%s' % (where, name, hit))
            except Exception:
                pass


def token(status, out, o, fields, sec):
    return '%s:%s:%s:%s' % (status, out, '1' if o.__dict__.get('compressed') else '0',
                            ''.join(code_of(o, a, sec, a in HANDLES) for a in fields))


def do_key(t):
    cls, kind, ops, secret, network, chain, fmt = t[1:8]
    sec = Secrets()
    o = make_key(cls, kind, secret, network, chain, fmt)
    s = int(secret, 16)
    sec.add(s, (o.depth, o.parent_fingerprint, o.child_index, o.chain) if isinstance(o, HDKey) else None)
    if isinstance(o, HDKey):
        sec.add(s, (0, b'\0\0\0\0', 0, bytes.fromhex(chain)))
    fields = HD_FIELDS if cls == 'H' else KEY_FIELDS
    is_public = not kind.startswith('priv')
    toks = [token('ok', '-', o, fields, sec)]
    leaks = []
    default_export_leaks(o, sec, leaks, '0')
    if is_public:
        public_view_leaks(o, sec, leaks, '0')
    for i, op in enumerate([] if ops == '-' else ops.split(',')):
        where = '%d/%s' % (i + 1, op)
        try:
            o, val = apply_op(o, op, sec, 1 + i)
            status = 'ok'
        except Exception as e:
            val, status = None, 'err'
        if status == 'ok' and op in ('Public', 'ChildPub', 'PublicMaster'):
            is_public = True
        if status == 'ok' and op not in NO_EXPORT:
            out = 'S' if sec.find(blob_of(val)) else 'P'
        else:
            out = '-'
        toks.append(token(status, out, o, fields, sec))
        default_export_leaks(o, sec, leaks, where)
        if is_public:
            public_view_leaks(o, sec, leaks, where)
    return ' '.join(toks) + ' ## ' + (' | '.join(leaks) if leaks else '-')


# ------------------------------------------------------------------ wallets
_wallet_n = [0]


def db_uri(name=None):
    return 'sqlite:///' + os.path.abspath(name or 'c16_wallets_%d.sqlite' % os.getpid())


def wallet_secrets(w, sec):
    """every private key stored for this wallet (read through the ORM) with its extended-key metadata."""
    for row in w.keys():
        if row.private:
            s = int.from_bytes(row.private, 'big')
            hd = None
            try:
                h = HDKey.from_wif(row.wif, network=row.network_name)
                hd = (h.depth, h.parent_fingerprint, h.child_index, h.chain)
            except Exception:
                pass
            sec.add(s, hd)
    for cw in w.cosigner:
        wallet_secrets(cw, sec)


def make_wallet(kind, seed, network, uri=None):
    from bitcoinlib.wallets import Wallet
    _wallet_n[0] += 1
    name = 'w%d_%s' % (_wallet_n[0], kind)
    uri = uri or db_uri()
    wt = default_wt(network)
    master = HDKey.from_seed(bytes.fromhex(seed), network=network, witness_type=wt)
    sec = Secrets()
    sec.add_key(master)
    if kind == 'private':
        w = Wallet.create(name, keys=master, network=network, witness_type=wt, db_uri=uri)
    elif kind == 'legacy':
        master = HDKey.from_seed(bytes.fromhex(seed), network=network, witness_type='legacy')
        w = Wallet.create(name, keys=master, network=network, witness_type='legacy', db_uri=uri)
    elif kind == 'watch':
        acc = master.public_master(as_private=True)
        sec.add_key(acc)
        w = Wallet.create(name, keys=master.public_master().wif(), network=network, witness_type=wt, db_uri=uri)
    elif kind == 'single':
        k = HDKey(master.private_byte.hex(), network=network, witness_type=wt)
        sec.add_key(k)
        w = Wallet.create(name, keys=k, network=network, scheme='single', witness_type=wt, db_uri=uri)
    elif kind == 'multisig':
        other = HDKey.from_seed(hashlib.sha256(bytes.fromhex(seed)).digest(), network=network, multisig=True,
                                witness_type=wt)
        sec.add_key(other)
        m2 = HDKey.from_seed(bytes.fromhex(seed), network=network, multisig=True, witness_type=wt)
        w = Wallet.create(name, keys=[m2, other.public_master_multisig()], sigs_required=2, network=network,
                          witness_type=wt, db_uri=uri)
    else:
        raise ValueError(kind)
    w.get_key()
    if kind != 'single':
        w.new_key()
    wallet_secrets(w, sec)
    return w, sec, master


def wk_token(status, out, o, sec):
    return token(status, out, o, WK_FIELDS, sec)


def wk_leaks(o, sec, leaks, where, public_view):
    for name, f in (('as_dict', lambda: o.as_dict()), ('repr', lambda: repr(o)), ('str', lambda: str(o))):
        try:
            hit = sec.find(blob_of(f()))
            if hit:
                leaks.append('%s:%s:%s' % (where, name, hit))
        except Exception as e:
            leaks.append('%s:%s-raised:%s' % (where, name, type(e).__name__))
    if public_view:
        for a, v in sorted(o.__dict__.items()):
            if a in HANDLES:
                continue
            hit = sec.find(blob_of(v))
            if hit:
                leaks.append('%s:attr %s:%s' % (where, a, hit))
        h = o.__dict__.get('_hdkey_object')
        if isinstance(h, HDKey):
            hit = sec.find(pickle.dumps(h))
            if hit:
                leaks.append('%s:pickle(_hdkey_object):%s' % (where, hit))


def do_wk(t):
    from bitcoinlib.wallets import WalletKey
    kind, ops, seed, network = t[1:5]
    w, sec, master = make_wallet('watch' if kind.startswith('pub') else 'private', seed, network)
    if kind == 'priv1':
        o = w.get_key()
    elif kind == 'priv0':
        o = WalletKey(w.get_key().key_id, w.session)
    elif kind == 'pub1':
        o = w.get_key()
    elif kind == 'pub0':
        o = WalletKey(w.main_key_id, w.session)
    elif kind == 'addr':
        a = Address(Key(int(seed[:32], 16) + 1, network=network).public_byte, network=network)
        o = WalletKey.from_key('addr', w.wallet_id, w.session, key=a)
    else:
        raise ValueError(kind)
    toks = [wk_token('ok', '-', o, sec)]
    leaks = []
    is_public = kind in ('pub1', 'pub0', 'addr')
    wk_leaks(o, sec, leaks, '0', is_public)
    for i, op in enumerate([] if ops == '-' else ops.split(',')):
        where = '%d/%s' % (i + 1, op)
        val = None
        try:
            if op == 'Key':
                val = o.key()
            elif op == 'Public':
                o = o.public()
                is_public = True
            elif op in ('AsDict0', 'AsDict1'):
                val = o.as_dict(include_private=op[-1] == '1')
            elif op == 'Repr':
                val = repr(o)
            elif op == 'Balance':
                val = [o.balance(), o.balance(as_string=True)]
            elif op == 'Name':
                val = o.name
            else:
                raise ValueError(op)
            status = 'ok'
        except ValueError:
            raise
        except Exception:
            status = 'err'
        out = '-'
        if status == 'ok' and op != 'Public':
            out = 'S' if sec.find(blob_of(val)) else 'P'
        toks.append(wk_token(status, out, o, sec))
        wk_leaks(o, sec, leaks, where, is_public)
    return ' '.join(toks) + ' ## ' + (' | '.join(leaks) if leaks else '-')


def do_wallet(t):
    kind, seed, network = t[1:4]
    w, sec, master = make_wallet(kind, seed, network)
    leaks = []

    def chk(name, f, expect_clean=True):
        try:
            v = f()
        except Exception as e:
            leaks.append('%s-raised:%s:%s' % (name, type(e).__name__, str(e)[:60].replace('|', '/')))
            return None
        hit = sec.find(blob_of(v))
        if hit and expect_clean:
            leaks.append('%s:%s' % (name, hit))
        return hit

    chk('repr', lambda: repr(w))
    chk('str', lambda: str(w))
    chk('as_dict()', lambda: w.as_dict())
    chk('as_json()', lambda: w.as_json())
    for d in (0, 1, 2, 3, 4, 5):
        chk('info(detail=%d)' % d, lambda: captured(lambda: w.info(detail=d)))
    chk('wif()', lambda: w.wif())
    chk('wif(is_private=False)', lambda: w.wif(is_private=False))
    chk('keys(as_dict=True)', lambda: w.keys(as_dict=True))
    chk('addresslist', lambda: w.addresslist())
    chk('keys_addresses(as_dict)', lambda: [k.as_dict() for k in map(w.key, [r.id for r in w.keys_addresses()])])

    def pm():
        p = w.public_master()
        ps = p if isinstance(p, list) else [p]
        out = []
        for x in ps:
            d = {a: v for a, v in x.__dict__.items() if a not in HANDLES}
            out.append([d, repr(x), x.as_dict(), x.wif])
            k = x.key()
            out.append([k.__dict__ if not isinstance(k, list) else [y.__dict__ for y in k]])
            if not isinstance(k, list) and k is not None:
                out.append(pickle.dumps(k))
        return out
    chk('public_master()', pm)
    # ORM rows returned by Wallet.keys(): their repr is a default export of a key object as well
    chk('dbkey-repr', lambda: repr(w.keys()))
    # sensitivity control: the explicit private export must be FOUND by the same scan (non-vacuity)
    control = '-'
    if kind in ('private', 'legacy', 'single'):
        hit = chk('control', lambda: [w.wif(is_private=True), w.as_dict(include_private=True)], expect_clean=False)
        control = 'found' if hit else 'MISSED'
    elif kind == 'watch':
        control = 'n/a'
        chk('as_dict(include_private=True)', lambda: w.as_dict(include_private=True))
        chk('wif(is_private=True)', lambda: w.wif(is_private=True))
    # a transaction created and signed by the wallet (offline test network only)
    if network == 'bitcoinlib_test' and kind in ('private', 'legacy', 'single'):
        try:
            w.utxos_update()
            tx = w.send_to(w.get_key().address, 1000, broadcast=False)
            chk('transaction.as_dict()', lambda: tx.as_dict())
            chk('transaction.as_json()', lambda: tx.as_json())
            chk('transaction.repr', lambda: repr(tx))
            chk('transaction.info()', lambda: captured(tx.info))
            chk('transaction.raw_hex()', lambda: tx.raw_hex())
            chk('transaction.export()', lambda: tx.export())
        except Exception as e:
            leaks.append('transaction-flow-raised:%s:%s' % (type(e).__name__, str(e)[:60]))
    return 'ok control=%s ## %s' % (control, ' | '.join(leaks) if leaks else '-')


def do_dbfile(t):
    """create wallets on a FRESH sqlite file, close, scan the raw bytes.  With DB_FIELD_ENCRYPTION_KEY in the
    environment nothing may be found; without it the same scan must find the keys (sensitivity control)."""
    seed, network = t[1:3]
    import gc
    _wallet_n[0] += 1
    fn = 'c16_dbfile_%d_%d.sqlite' % (os.getpid(), _wallet_n[0])
    for ext in ('', '-journal', '-wal', '-shm'):
        if os.path.exists(fn + ext):
            os.remove(fn + ext)
    found = []
    sec_all = Secrets()
    for kind in ('private', 'single', 'watch'):
        w, sec, master = make_wallet(kind, hashlib.sha256((seed + kind).encode()).hexdigest(), network, uri=db_uri(fn))
        if kind != 'watch':
            sec_all.needles.update(sec.needles)
        # reopening must give the keys back (encryption is transparent to the API)
        if kind == 'private':
            name = w.name
            x1 = w.wif(is_private=True)
            w.session.close()
            from bitcoinlib.wallets import Wallet
            w2 = Wallet(name, db_uri=db_uri(fn))
            if w2.wif(is_private=True) != x1:
                found.append('reopen-differs')
            w2.session.close()
            del w2
        w.session.close()
        w._engine.dispose() if getattr(w, '_engine', None) else None
        del w
    gc.collect()
    blob = b''
    for ext in ('', '-journal', '-wal', '-shm'):
        if os.path.exists(fn + ext):
            blob += open(fn + ext, 'rb').read()
    hits = sorted({label for nd, label in sec_all.needles.items() if nd in blob})
    enc = bool(os.environ.get('DB_FIELD_ENCRYPTION_KEY') or os.environ.get('DB_FIELD_ENCRYPTION_PASSWORD'))
    return 'ok enc=%d bytes=%d hits=%s%s' % (enc, len(blob), ','.join(h.split('/')[0] for h in hits) or '-',
                                               (' ' + ','.join(found)) if found else '')


def do_dbfile_enc(t):
    """same scan in a child process whose environment carries the field-encryption key / password (they are read
    when bitcoinlib.config is imported)."""
    import subprocess
    env = dict(os.environ)
    env.pop('DB_FIELD_ENCRYPTION_KEY', None)
    env.pop('DB_FIELD_ENCRYPTION_PASSWORD', None)
    if t[1] == 'key':
        env['DB_FIELD_ENCRYPTION_KEY'] = hashlib.sha256(('k' + t[2]).encode()).hexdigest()
    else:
        env['DB_FIELD_ENCRYPTION_PASSWORD'] = 'verif ' + t[2][:8]
    p = subprocess.run([sys.executable, os.path.abspath(__file__)], input='dbfile %s %s\n' % (t[2], t[3]),
                       stdout=subprocess.PIPE, stderr=subprocess.PIPE, text=True, env=env, timeout=600)
    lines = p.stdout.strip().split('\n')
    return lines[-1] if lines and lines[-1] else 'CRASH child: ' + p.stderr[-200:].replace('\n', ' ')


def dispatch(t):
    if t[0] == 'dbfile-enc':
        return do_dbfile_enc(t)
    if t[0] == 'key':
        return do_key(t)
    if t[0] == 'wk':
        return do_wk(t)
    if t[0] == 'wallet':
        return do_wallet(t)
    if t[0] == 'dbfile':
        return do_dbfile(t)
    return 'BADREQ'


def main():
    out = sys.stdout
    for line in sys.stdin:
        toks = line.strip().split(' ')
        try:
            r = dispatch(toks)
        except Exception as e:
            import traceback
            r = 'CRASH %s: %s @ %s' % (type(e).__name__, str(e)[:120].replace('\n', ' '),
                                       traceback.format_exc().strip().split('\n')[-3].strip()[:100])
        out.write(r + '\n')
        out.flush()


if __name__ == '__main__':
    main()
