"""Implementation adapter for C04: same line protocol as ocaml/c04_driver.ml, answers from the repository
through the public entry points Key(...), HDKey(...), .public_hex, .public_compressed_hex,
.public_uncompressed_hex, .public_point(), .hash160, .address(...), Address(...).address, mod_sqrt."""
import sys, os, logging
sys.path.insert(0, os.path.dirname(os.path.abspath(__file__)))
from common_impl import hx, unhx, serve
logging.disable(logging.CRITICAL)
from bitcoinlib.keys import Key, HDKey, Address, mod_sqrt


def input_of(fmt, arg):
    if fmt == 'int':
        return int(arg)
    if fmt == 'dec':
        return arg
    if fmt == 'hex':
        return unhx(arg).hex()
    if fmt == 'bytes':
        return unhx(arg)
    if fmt == 'point':
        x, y = arg.split(',')
        return (int(x), int(y))
    raise ValueError(fmt)


def nn(s):
    return None if s == 'N' else s


def carg_of(s):
    return None if s == 'N' else s == '1'


def make(entry, fmt, arg, compressed, strict, net):
    v = input_of(fmt, arg)
    if entry == 'HDKey':
        # HDKey has no strict argument (Key.__init__ is called with the default strict=True)
        return HDKey(v, network=net, compressed=compressed)
    return Key(v, network=net, compressed=compressed, strict=strict)


def field(f):
    try:
        return f()
    except Exception:
        return 'ERR'


def is_empty(fmt, arg):
    return (fmt == 'int' and int(arg) == 0) or (fmt in ('hex', 'bytes') and arg == '-')


def kw_of(s):
    """'st=p2pkh,enc=base58,...' -> dict of raw tokens ('-' = no keyword at all)"""
    return {} if s == '-' else dict(x.split('=', 1) for x in s.split(','))


def prefix_kw(kw):
    # pfx=<hex> as bytes, pfxh=<hex> as hexadecimal string, pfxs=<text> as text (bech32 hrp)
    if 'pfx' in kw:
        return {'prefix': bytes.fromhex(kw['pfx'])}
    if 'pfxh' in kw:
        return {'prefix': kw['pfxh']}
    if 'pfxs' in kw:
        return {'prefix': kw['pfxs']}
    return {}


def addr_kwargs(kw):
    a = prefix_kw(kw)
    if 'st' in kw:
        a['script_type'] = kw['st']
    if 'enc' in kw:
        a['encoding'] = kw['enc']
    if 'comp' in kw:
        a['compressed'] = kw['comp'] == '1'
    return a


def key_of(entry, d, cp, net, wt):
    if entry == 'HDKey':
        if wt == 'N':
            return HDKey(int(d), network=net, compressed=cp == '1')
        return HDKey(int(d), network=net, compressed=cp == '1', witness_type=wt)
    return Key(int(d), network=net, compressed=cp == '1')


def addrx(t):
    """argument combinations of Address(...) / Key.address(...) / HDKey.address(...) / Address.parse"""
    if t[0] == 'A':
        net, data, kws = t[1:]
        kw = kw_of(kws)
        a = addr_kwargs(kw)
        if 'wt' in kw:
            a['witness_type'] = kw['wt']
        if 'witver' in kw:
            a['witver'] = int(kw['witver'])
        if net != 'N':
            a['network'] = net
        v = unhx(data).hex() if kw.get('form') == 'hex' else unhx(data)
        try:
            if kw.get('hd') == '1':
                return Address(hashed_data=v, **a).address or '-'
            if kw.get('pos') == '1':
                return Address(v, **a).address or '-'
            return Address(data=v, **a).address or '-'
        except Exception:
            return 'ERR'
    if t[0] in ('K', 'H'):
        net, d, cp, wt, kws = t[1:]
        kw = kw_of(kws)
        try:
            key = key_of('HDKey' if t[0] == 'H' else 'Key', d, cp, net, wt)
        except Exception:
            return 'ERR import'
        try:
            a = addr_kwargs(kw)
            if kw.get('m') == 'u':
                a.pop('compressed', None)
                return key.address_uncompressed(**a)
            if kw.get('m') == 'o':
                return key.address_obj.address
            return key.address(**a)
        except Exception:
            return 'ERR'
    if t[0] == 'P':
        addr, net, enc = t[1:]
        try:
            a = Address.parse(addr, network=nn(net), encoding=nn(enc))
            return 'OK %s %s %s %s' % (a.address, a.script_type, hx(a.hash_bytes), a.network.name)
        except Exception:
            return 'ERR'
    return 'BADREQ'


def sess(t):
    """a history on ONE key object: sess <entry> <d> <cp> <net> <wt> <step>...; one answer per step, joined by '|'"""
    entry, d, cp, net, wt = t[:5]
    from bitcoinlib.networks import Network
    try:
        key = key_of(entry, d, cp, net, wt)
    except Exception:
        return 'ERR import'
    out = []
    for step in t[5:]:
        f = step.split(':')
        try:
            if f[0] == 'a':
                out.append(key.address(**addr_kwargs(kw_of(f[1]))))
            elif f[0] == 'u':
                a = addr_kwargs(kw_of(f[1]))
                a.pop('compressed', None)
                out.append(key.address_uncompressed(**a))
            elif f[0] == 'o':
                out.append(key.address_obj.address)
            elif f[0] == 'h':
                out.append(hx(key.hash160))
            elif f[0] == 'pc':
                out.append(key.public_compressed_hex)
            elif f[0] == 'pu':
                out.append(key.public_uncompressed_hex)
            elif f[0] == 'ph':
                out.append(key.public_hex)
            elif f[0] == 'pb':
                out.append(hx(key.public_byte))
            elif f[0] == 'pp':
                out.append(key.public().address(**addr_kwargs(kw_of(f[1]))))
            elif f[0] == 'n':
                if entry == 'HDKey':
                    key.network_change(f[1])
                else:
                    key.network = Network(f[1])
                out.append('ok')
            else:
                out.append('BADSTEP')
        except Exception:
            out.append('ERR')
    return '|'.join(out)


def route(t):
    """text routes of a private key: route <entry> wif|bip38 <string> <cp> <net> <password as utf-8 hex | ->"""
    entry, kind, s, cp, net, pwhex = t
    kw = dict(network=net, compressed=cp == '1')
    if kind == 'bip38':
        kw['password'] = unhx(pwhex).decode('utf-8')
        if entry == 'HDKey':
            kw['witness_type'] = 'legacy'
    elif kind != 'wif':
        return 'BADREQ'
    try:
        key = HDKey(s, **kw) if entry in ('HDKey', 'HDKeyD') else Key(s, **kw)      # HDKeyD: default witness type
    except Exception:
        return 'ERR'
    pt = field(lambda: key.public_point())
    x, y = (str(pt[0]), str(pt[1])) if isinstance(pt, tuple) else ('ERR', 'ERR')
    return ' '.join([
        'OK', '1' if key.is_private else '0',
        str(key.secret) if key.is_private else '-',
        field(lambda: key.public_hex or '-'),
        field(lambda: key.public_compressed_hex or '-'),
        field(lambda: key.public_uncompressed_hex or '-'),
        x, y,
        field(lambda: key.address() or '-'),
        field(lambda: key.address(script_type='p2pkh', encoding='base58') or '-')])


def dispatch(t):
    k = t[0]
    if k == 'route':
        return route(t[1:]) if len(t) == 7 else 'BADREQ'
    if k == 'addrx':
        return addrx(t[1:])
    if k == 'sess':
        return sess(t[1:])
    if k == 'import':
        entry, fmt, arg, c, s, net = t[1:]
        try:
            key = make(entry, fmt, arg, c == '1', s == '1', net)
        except Exception:
            return 'ERR'
        if is_empty(fmt, arg):
            return 'RANDOM'          # a key object came back for an input that names no key
        pt = field(lambda: key.public_point())
        x, y = (str(pt[0]), str(pt[1])) if isinstance(pt, tuple) else ('ERR', 'ERR')
        return ' '.join([
            'OK', '1' if key.is_private else '0',
            str(key.secret) if key.is_private else '-',
            field(lambda: key.public_hex or '-'),
            field(lambda: key.public_compressed_hex or '-'),
            field(lambda: key.public_uncompressed_hex or '-'),
            x, y])
    if k == 'keyhash':
        entry, fmt, arg, c = t[1:]
        try:
            key = make(entry, fmt, arg, c == '1', True, 'bitcoin')
        except Exception:
            return 'ERR import'
        if is_empty(fmt, arg):
            return 'RANDOM'
        return field(lambda: hx(key.hash160))
    if k == 'addr':
        entry, fmt, arg, c, net, carg, st, enc = t[1:]
        try:
            key = make(entry, fmt, arg, c == '1', True, net)
        except Exception:
            return 'ERR import'
        if is_empty(fmt, arg):
            return 'RANDOM'
        try:
            return key.address(compressed=carg_of(carg), script_type=nn(st), encoding=nn(enc))
        except Exception:
            return 'ERR'
    if k == 'address':
        net, st, enc, witver, data, hashed = t[1:]
        try:
            return Address(data=unhx(data), hashed_data=unhx(hashed), script_type=nn(st), encoding=nn(enc),
                           witver=int(witver), network=net).address or '-'
        except Exception:
            return 'ERR'
    if k == 'stdaddr':
        # same call as 'address' with data only; the model side answers from the FROZEN specification table
        net, st, enc, data = t[1:]
        try:
            return Address(data=unhx(data), script_type=nn(st), encoding=nn(enc), network=net).address or '-'
        except Exception:
            return 'ERR'
    if k == 'modsqrt':
        try:
            return str(mod_sqrt(int(t[1])))
        except Exception:
            return 'ERR'
    return 'BADREQ'


serve(dispatch)
