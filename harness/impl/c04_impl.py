"""Implementation adapter for C04: same line protocol as ocaml/c04_driver.ml, answers from the repository
through the public entry points Key(...), HDKey(...), .public_hex, .public_compressed_hex,
.public_uncompressed_hex, .public_point(), .hash160, .address(...), Address(...).address, mod_sqrt."""
import sys, os, logging
sys.path.insert(0, os.path.dirname(os.path.abspath(__file__)))
from common_impl import hx, unhx, serve
logging.disable(logging.CRITICAL)
from bitcoinlib.keys import Key, HDKey, Address, mod_sqrt


def input_of(fmt, arg):
    if fmt == 'int':
        return int(arg)
    if fmt == 'dec':
        return arg
    if fmt == 'hex':
        return unhx(arg).hex()
    if fmt == 'bytes':
        return unhx(arg)
    if fmt == 'point':
        x, y = arg.split(',')
        return (int(x), int(y))
    raise ValueError(fmt)


def nn(s):
    return None if s == 'N' else s


def carg_of(s):
    return None if s == 'N' else s == '1'


def make(entry, fmt, arg, compressed, strict, net):
    v = input_of(fmt, arg)
    if entry == 'HDKey':
        # HDKey has no strict argument (Key.__init__ is called with the default strict=True)
        return HDKey(v, network=net, compressed=compressed)
    return Key(v, network=net, compressed=compressed, strict=strict)


def field(f):
    try:
        return f()
    except Exception:
        return 'ERR'


def is_empty(fmt, arg):
    return (fmt == 'int' and int(arg) == 0) or (fmt in ('hex', 'bytes') and arg == '-')


def dispatch(t):
    k = t[0]
    if k == 'import':
        entry, fmt, arg, c, s, net = t[1:]
        try:
            key = make(entry, fmt, arg, c == '1', s == '1', net)
        except Exception:
            return 'ERR'
        if is_empty(fmt, arg):
            return 'RANDOM'          # a key object came back for an input that names no key
        pt = field(lambda: key.public_point())
        x, y = (str(pt[0]), str(pt[1])) if isinstance(pt, tuple) else ('ERR', 'ERR')
        return ' '.join([
            'OK', '1' if key.is_private else '0',
            str(key.secret) if key.is_private else '-',
            field(lambda: key.public_hex or '-'),
            field(lambda: key.public_compressed_hex or '-'),
            field(lambda: key.public_uncompressed_hex or '-'),
            x, y])
    if k == 'keyhash':
        entry, fmt, arg, c = t[1:]
        try:
            key = make(entry, fmt, arg, c == '1', True, 'bitcoin')
        except Exception:
            return 'ERR import'
        if is_empty(fmt, arg):
            return 'RANDOM'
        return field(lambda: hx(key.hash160))
    if k == 'addr':
        entry, fmt, arg, c, net, carg, st, enc = t[1:]
        try:
            key = make(entry, fmt, arg, c == '1', True, net)
        except Exception:
            return 'ERR import'
        if is_empty(fmt, arg):
            return 'RANDOM'
        try:
            return key.address(compressed=carg_of(carg), script_type=nn(st), encoding=nn(enc))
        except Exception:
            return 'ERR'
    if k == 'address':
        net, st, enc, witver, data, hashed = t[1:]
        try:
            return Address(data=unhx(data), hashed_data=unhx(hashed), script_type=nn(st), encoding=nn(enc),
                           witver=int(witver), network=net).address or '-'
        except Exception:
            return 'ERR'
    if k == 'stdaddr':
        # same call as 'address' with data only; the model side answers from the FROZEN specification table
        net, st, enc, data = t[1:]
        try:
            return Address(data=unhx(data), script_type=nn(st), encoding=nn(enc), network=net).address or '-'
        except Exception:
            return 'ERR'
    if k == 'modsqrt':
        try:
            return str(mod_sqrt(int(t[1])))
        except Exception:
            return 'ERR'
    return 'BADREQ'


serve(dispatch)
