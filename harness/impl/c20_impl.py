"""Implementation adapter for C20: runs the real bitcoinlib Service / Cache against programmable fake providers.

Request line :  <network> <cachemode> <step> <step> ...
  cachemode  :  file (one sqlite cache shared by all steps of the case, emptied before the case) | off (cache_uri='')
  step       :  method/arg/minp/maxp/maxe/dt/prov+prov+...       (a NEW Service object is constructed for every step)
  prov       :  id:prio:tb:static:bc:q
                 static  n normal | u no url | k api key needed | m provider module missing | x client constructor raises
                 bc, q   outcome for 'blockcount' (constructor and later) and for the queried method:
                         o<val> answer | e<id> raise ClientError('boom<id>') | a raise AttributeError | f return False
                         | n client has no such method
  val        :  i<int> | N | s<id> | t<k>c / t<k>u (corpus transaction k, confirmed / unconfirmed) | L<n>v<b> | d<id>
  seeding    :  seedaddr/<addr>.<last_block|N>.<balance|N>/...   calls Cache.store_address directly (warm address cache)
Answer line  :  per step  <ret> R=<id>:<val>,.. E=<id>:<err>,.. C=<provider call order>   joined by ' ; '
"""
import sys, os, json, types, logging, sqlite3, hashlib, subprocess
sys.path.insert(0, os.path.dirname(os.path.abspath(__file__)))
logging.disable(logging.CRITICAL)

NWORK = int(os.environ.get('C20_WORKERS', '12'))


def fan_out(lines):
    """split the request lines over worker processes, each with its own data directory"""
    base = os.environ['BCL_DATA_DIR'].rstrip(os.sep)
    n = min(NWORK, max(1, len(lines) // 200))
    chunks = [lines[i::n] for i in range(n)]
    procs = []
    for w, ch in enumerate(chunks):
        env = dict(os.environ, C20_WORKER='1', BCL_DATA_DIR=base + '_w%d' % w + os.sep)
        os.makedirs(env['BCL_DATA_DIR'], exist_ok=True)
        p = subprocess.Popen([sys.executable, os.path.abspath(__file__)], stdin=subprocess.PIPE, stdout=subprocess.PIPE,
                             env=env, text=True)
        procs.append((p, ch))
    import threading
    outs = [None] * n

    def run(i):
        p, ch = procs[i]
        o, _ = p.communicate(''.join(ch))
        outs[i] = o.split('\n')[:len(ch)]
    ths = [threading.Thread(target=run, args=(i,)) for i in range(n)]
    [t.start() for t in ths]
    [t.join() for t in ths]
    res = [None] * len(lines)
    for w in range(n):
        for j, o in enumerate(outs[w]):
            res[w + j * n] = o
    sys.stdout.write('\n'.join('CRASH worker' if r is None else r for r in res) + '\n')


if __name__ == '__main__' and not os.environ.get('C20_WORKER'):
    _lines = sys.stdin.readlines()
    if len(_lines) >= 400 and NWORK > 1:
        fan_out(_lines)
        sys.exit(0)
else:
    _lines = None

import datetime as _dt
import bitcoinlib                                         # noqa: E402  (creates the data directory)
from bitcoinlib import services as S                      # noqa: E402
from bitcoinlib.services import services as SS            # noqa: E402
from bitcoinlib.services.services import Service, ServiceError, Cache   # noqa: E402
from bitcoinlib.services.baseclient import ClientError    # noqa: E402
from bitcoinlib.transactions import Transaction           # noqa: E402
from bitcoinlib.networks import Network                   # noqa: E402

DATA = os.environ['BCL_DATA_DIR']
CACHE_FILE = os.path.join(DATA, 'c20_cache.sqlite')
CACHE_URI = 'sqlite:///' + CACHE_FILE
H0 = 800000

# ------------------------------------------------------------------ controlled clock / random
CLOCK = [0]
BASE = _dt.datetime(2030, 1, 1)


class FakeDT(_dt.datetime):
    @classmethod
    def now(cls, tz=None):
        return BASE + _dt.timedelta(seconds=CLOCK[0])


class FakeTime:
    @staticmethod
    def time():
        return 1000000.0 + CLOCK[0]


class FakeRandom:
    tb = [0.5]
    n = 0

    def random(self):
        v = self.tb[self.n % len(self.tb)]
        self.n += 1
        return v

    def shuffle(self, lst):
        pass


SS.datetime = FakeDT
SS.time = FakeTime
FRANDOM = FakeRandom()
SS.random = FRANDOM

# ------------------------------------------------------------------ corpus
RAWS = [
    '0100000001c59c1304f1c0749cda6f0c358a090b26236bf542bf09d0808e6edae4aac513cb010000006a473044022036f11c02e964d2e93d307645c784b451e418de85de3fb269bbf542b1fffafc5002205019ac02ecb3749825fca30da8f5deabf3dae3f9a7606dbf702b19b85c55a51981210337ab1266172bd19ad17062a47c0c7c9e154e54cec9e979d5fdfadd52a5ae3a5dffffffff030000000000000000166a146f6d6e69000000000000001f000000037e11d6003ab85200000000001976a914c12632196e7884ca345bd0016b19fe38359e724d88ac22020000000000001976a91471a29f974cc44430be23190a9cbc0e55bcb26e8588ac00000000',
    '02000000000101b99ef54dd7695be7574ac6fb4a6d1a2dd98cb4ec7ee53b06117754da424a4c440100000000ffffffff0112d62d1e00000000160014f922634ea00272421ffdb6f187935602159e17500247304402204c040218c1a5dc87e0ba359706fbd0c9c36063fd89c6b4dd900e03cd69de7fd602204c7ebe180a072cc415ba3337dd66d259a4c7de2b563269a90e055f91898bcf590121025477b3e0aa2619e1ed61b7734b31369c156d9ff7fcbcdc1b7e3c79ed657aab0f00000000',
    '010000000001016768c8454c2d561957e13baabf9641382337f89e5854343895b46ab368bbd6350000000017160014d60b21752adc62eb3117b0b2bd00b0126d8e0157ffffffff024aae8b060000000017a914d966f0e3e05e3ab1209524338ff61b32eb2aa58887be5d9b00000000001600148ceebc8944c8bb2af9f6714d60c88860191032f302473044022025a38facc3e83e532a6ad5a09ff2cc5e10bf1b09249169b233c5a3ffc21003de022031715687bc57778f7564924861a2d821b4eb6d15b1957ef8955fd7d6f93df7bd0121034168c3df0c9db74c8159388b270a6dbb30778b8ac74e6b456ad1ebb8c4bb344f00000000',
    '01000000000101c114c54564ea09b33c73bfd0237a4d283fe9e73285ad6d34fd3fa42c99f194640300000000ffffffff0200e1f5050000000017a914e10a445f3084bd131394c66bf0023653dcc247ab877cdb3b0300000000220020701a8d401c84fb13e6baf169d59684e17abd9fa216c8cc5b9fc63d622ff8c58d04004830450221009c5bd2fa1acb5884fca1612217bd65992c96c839accea226a3c59d7cc28779c502202cff98a71d195ab61c08fc126577466bb05ae0bfce5554b59455bd758309d49501483045022100f81ce75339657d31698793e78f475c04fe56bafdb3cfc6e1035846aeeeb98f7902203ad5b1bcb96494457197cb3c12b67ddd3cf8127fe054dec971c858252c004bf8016952210375e00eb72e29da82b89367947f29ef34afb75e8654f6ea368e0acdfd92976b7c2103a1b26313f430c4b15bb1fdce663207659d8cac749a0e53d70eff01874496feff2103c96d495bfdd5ba4145e3e046fee45e84a8a48ad05bd8dbb395c011a32cf9f88053ae00000000',
    '02000000010000000000000000000000000000000000000000000000000000000000000000ffffffff4d03f6591c046945e35e2f706f6f6c696e2e636f6d2ffabe6d6d3bd89000dd7bd942b167b95cca4bf887bb60a45511c7fe875b4ece484489335101000000000000001f9aff78ef65000000000000ffffffff026dd1b34a000000001976a914b0b0451e297b39ea0f52982793fb245ff446438988ac0000000000000000266a24aa21a9ed9eed30e9aebb9f3b08026a3c3105e3ca963a895cf5f9b55037cfdf592c02d77100000000',
]
ADDRS = ['1A1zP1eP5QGefi2DMPTfTL5SLmv7DivfNa', '12c6DSiU4Rq3P4ZxziKxzrL5LmMBrzjrJX', 'bc1qar0srrr7xfkvy5l643lydnw9re59gtzzwf5mdq']
NET = ['bitcoin']
SPENT = [False, None, True, False, None]      # spent flag of output 0 as the provider reports it


def make_tx(k, confirmed):
    """what a provider client hands back: parsed transaction + block/date/input values when confirmed"""
    t = Transaction.parse_hex(RAWS[k], strict=False, network=NET[0])
    tot_out = sum(o.value for o in t.outputs)
    for n, i in enumerate(t.inputs):
        if not t.coinbase:
            i.value = tot_out // len(t.inputs) + 1000 + n
    if confirmed:
        t.block_height = H0 - 100 - k
        t.date = _dt.datetime(2023, 5, 1 + k, 12, 0, 0, tzinfo=_dt.timezone.utc)
        t.confirmations = 101 + k
        t.status = 'confirmed'
    else:
        t.block_height = None
        t.date = None
        t.confirmations = 0
        t.status = 'unconfirmed'
    t.outputs[0].spent = SPENT[k]
    t.update_totals()
    return t


def tx_digest(t):
    """the observable content of a transaction that a cached copy must preserve"""
    h = hashlib.sha256()
    h.update(repr((t.version_int, t.locktime, t.witness_type, bool(t.coinbase), t.raw_hex(),
                   [(i.prev_txid.hex(), i.output_n_int, bytes(i.unlocking_script).hex(), i.sequence, i.value,
                     [bytes(w).hex() for w in i.witnesses]) for i in t.inputs],
                   [(o.value, bytes(o.lock_script).hex(), o.address) for o in t.outputs])).encode())
    return h.hexdigest()


CORPUS_TXID = []
CORPUS_DIG = {}


def build_corpus():
    CORPUS_TXID.clear()
    CORPUS_DIG.clear()
    for k in range(len(RAWS)):
        for c in (True, False):
            t = make_tx(k, c)
            if c:
                CORPUS_TXID.append(t.txid)
            CORPUS_DIG[tx_digest(t)] = k


def utxo_list(n, b):
    return [{'address': ADDRS[0], 'txid': '%064x' % (0xabc000 + b + j), 'confirmations': 10, 'output_n': j, 'input_n': 0,
             'block_height': H0 - 10, 'fee': None, 'size': 0, 'value': b + j, 'script': '', 'date': None}
            for j in range(n)]


def build_value(tok, method, args):
    c = tok[0]
    if c == 'i':
        if method == 'getbalance' and args and not args[0]:
            return 0          # a real client asked for the balance of no address answers 0
        return int(tok[1:])
    if c == 'N':
        return None
    if c == 's':
        return 'garbage' + tok[1:]
    if c == 't':
        return make_tx(int(tok[1:-1]), tok[-1] == 'c')
    if c == 'L':
        n, b = tok[1:].split('v')
        return utxo_list(int(n), int(b))
    if c == 'd':
        return {'txid': '%064x' % int(tok[1:]), 'response_dict': {'id': int(tok[1:])}}
    if c == 'r':
        return RAWS[int(tok[1:])]
    if c == 'B':
        return tok[1:] == '1'
    raise ValueError(tok)


def val_token(v):
    if v is True:
        return 'T'
    if v is False:
        return 'F'
    if v is None:
        return 'N'
    if isinstance(v, int):
        return 'i%d' % v
    if isinstance(v, str):
        if v.startswith('garbage'):
            return 's' + v[7:]
        if v in RAWS:
            return 'r%d' % RAWS.index(v)
        return 'S?' + v[:16]
    if isinstance(v, Transaction):
        try:
            k = CORPUS_DIG.get(tx_digest(v))
        except Exception as e:
            k = None
        j = CORPUS_TXID.index(v.txid) if v.txid in CORPUS_TXID else '?'
        return 't%s%s@%s' % ('?' if k is None else k, 'c' if v.block_height else 'u', j)
    if isinstance(v, list):
        if all(isinstance(u, dict) and 'value' in u for u in v):
            if not v:
                return 'L0v0'
            b = v[0]['value']
            if v == utxo_list(len(v), b):
                return 'L%dv%d' % (len(v), b)
        return 'L?'
    if isinstance(v, dict):
        if set(v) == {'txid', 'response_dict'} and v == build_value('d%d' % int(v['txid'], 16), '', ()):
            return 'd%d' % int(v['txid'], 16)
        return 'D?'
    return '?' + type(v).__name__


# ------------------------------------------------------------------ fake providers
PROG = {}       # (pid, method) -> outcome token
STATIC = {}     # pid -> static kind
CALLS = []


class FakeClientBase(object):
    pid = None

    def __init__(self, network, base_url, denominator, api_key, provider_coin_id, network_overrides, timeout,
                 latest_block, strict, wallet_name):
        if STATIC.get(self.pid) == 'x':
            raise ClientError('boom99')

    def __getattr__(self, method):
        if method.startswith('__'):
            raise AttributeError(method)
        o = PROG.get((self.pid, method))
        if o is None or o == 'n':
            raise AttributeError(method)
        pid = self.pid

        def call(*args):
            CALLS.append(pid)
            if o[0] == 'o':
                return build_value(o[1:], method, args)
            if o[0] == 'e':
                raise ClientError('boom' + o[1:])
            if o == 'a':
                raise AttributeError('inside provider')
            if o == 'f':
                return False
            raise ValueError(o)
        return call


for _i in range(4):
    _m = types.ModuleType('fakeprov%d' % _i)
    _m.FakeClient = type('FakeClient', (FakeClientBase,), {'pid': _i})
    setattr(S, 'fakeprov%d' % _i, _m)


def write_providers(provs, network):
    d = {}
    for p in provs:
        pid, st = p['id'], p['static']
        d['fp%d' % pid] = dict(provider=('missingprov%d' % pid) if st == 'm' else 'fakeprov%d' % pid, network=network,
                               client_class='FakeClient', provider_coin_id='', url='' if st == 'u' else 'http://fake/',
                               api_key='api-key-needed' if st == 'k' else '', priority=p['prio'], denominator=1,
                               network_overrides=None, timeout=0)
    with open(os.path.join(DATA, 'providers.json'), 'w') as f:
        json.dump(d, f)


def parse_provs(s):
    out = []
    if s == '-':
        return out
    for t in s.split('+'):
        a = t.split(':')
        out.append(dict(id=int(a[0]), prio=int(a[1]), tb=int(a[2]), static=a[3], bc=a[4], q=a[5]))
    return out


PROVIDER_METHOD = {'blockcount': 'blockcount', 'init': 'blockcount'}


def err_token(e):
    s = str(e)
    if s == 'Received empty response':
        return 'E'
    if s.startswith('boom'):
        return 'e' + s[4:]
    return '?' + s[:30]


def close(srv):
    try:
        ses = srv.cache.session
        if ses is not None:
            eng = ses.get_bind()
            ses.close()
            eng.dispose()
    except Exception:
        pass


def run_step(step, network, cache_uri):
    method, arg, minp, maxp, maxe, dt, provs = step.split('/')
    if method == 'seedaddr':
        a, lb, bal = arg.split('.')
        c = Cache(Network(network), db_uri=cache_uri)
        c.store_address(ADDRS[int(a)], last_block=None if lb == 'N' else int(lb), balance=None if bal == 'N' else int(bal))
        if c.session is not None:
            eng = c.session.get_bind()
            c.session.close()
            eng.dispose()
        return 'seeded'
    provs = parse_provs(provs)
    write_providers(provs, network)
    PROG.clear()
    STATIC.clear()
    pm = PROVIDER_METHOD.get(method, method)
    for p in provs:
        STATIC[p['id']] = p['static']
        PROG[(p['id'], 'blockcount')] = p['bc']
        if pm != 'blockcount':
            PROG[(p['id'], pm)] = p['q']
    FRANDOM.tb = [p['tb'] / 16.0 for p in provs] or [0.5]
    FRANDOM.n = 0
    del CALLS[:]
    try:
        srv = Service(network=network, min_providers=int(minp), max_providers=int(maxp), max_errors=int(maxe),
                      cache_uri=cache_uri)
    except ServiceError:
        return 'INITERR'
    except Exception as e:
        return 'INITOTHERERR C=%s X=%s' % (','.join(map(str, CALLS)) or '-', type(e).__name__)
    ncalls_init = len(CALLS)
    CLOCK[0] += int(dt)
    exc = ''
    try:
        if method == 'init':
            ret = 'ok'
        elif method == 'getbalance':
            ret = val_token(srv.getbalance(ADDRS[int(arg)]))
        elif method == 'getutxos':
            ret = val_token(srv.getutxos(ADDRS[int(arg)]))
        elif method == 'gettransaction':
            ret = val_token(srv.gettransaction(CORPUS_TXID[int(arg)]))
        elif method == 'getrawtransaction':
            ret = val_token(srv.getrawtransaction(CORPUS_TXID[int(arg)]))
        elif method == 'isspent':
            ret = val_token(srv.isspent(CORPUS_TXID[int(arg)], 0))
        elif method == 'estimatefee':
            ret = val_token(srv.estimatefee(int(arg)))
        elif method == 'blockcount':
            ret = val_token(srv.blockcount())
        elif method == 'sendrawtransaction':
            ret = val_token(srv.sendrawtransaction(RAWS[int(arg)]))
        elif method == 'getrawblock':
            ret = val_token(srv.getrawblock(int(arg)))
        elif method == 'mempool':
            ret = val_token(srv.mempool(CORPUS_TXID[int(arg)]))
        elif method == 'getinfo':
            ret = val_token(srv.getinfo())
        elif method == 'cacheinfo':
            d = srv.getcacheaddressinfo(ADDRS[int(arg)])
            ret = 'A' + '.'.join(val_token(d.get(k)) for k in ('balance', 'last_block', 'n_txs', 'n_utxos')) \
                if 'balance' in d else 'A-'
        else:
            return 'BADREQ'
    except ServiceError:
        ret = 'SERVICEERR'
    except Exception as e:
        ret = 'OTHERERR'
        exc = type(e).__name__
        try:
            srv.cache.session.rollback()
        except Exception:
            pass
    r = ','.join('%s:%s' % (k[2:], val_token(v)) for k, v in srv.results.items()) or '-'
    e = ','.join('%s:%s' % (k[2:], err_token(v)) for k, v in srv.errors.items()) or '-'
    out = '%s R=%s E=%s C=%s|%s' % (ret, r, e, ','.join(map(str, CALLS[:ncalls_init])) or '-',
                                   ','.join(map(str, CALLS[ncalls_init:])) or '-')
    if exc:
        out += ' X=' + exc
    close(srv)
    return out


def clear_cache():
    if os.path.exists(CACHE_FILE):
        con = sqlite3.connect(CACHE_FILE)
        for t in ('cache_transactions_node', 'cache_transactions', 'cache_address', 'cache_blocks', 'cache_variables'):
            try:
                con.execute('DELETE FROM ' + t)
            except sqlite3.OperationalError:
                pass
        con.commit()
        con.close()


def do_case(line):
    toks = line.split()
    if len(toks) < 3:
        return 'BADREQ'
    network, mode = toks[0], toks[1]
    if NET[0] != network or not CORPUS_TXID:
        NET[0] = network
        build_corpus()
    CLOCK[0] = 0
    if mode == 'file':
        clear_cache()
        uri = CACHE_URI
    elif mode == 'off':
        uri = ''
    else:
        return 'BADREQ'
    outs = []
    for st in toks[2:]:
        try:
            outs.append(run_step(st, network, uri))
        except Exception as e:
            outs.append('CRASH %s %s' % (type(e).__name__, str(e)[:80].replace('\n', ' ')))
    return ' ; '.join(outs)


def main():
    lines = _lines if _lines is not None else sys.stdin.readlines()
    out = sys.stdout
    for line in lines:
        line = line.strip()
        try:
            r = do_case(line)
        except Exception as e:
            r = 'CRASH %s %s' % (type(e).__name__, str(e)[:80].replace('\n', ' '))
        out.write(r + '\n')
    out.flush()


if __name__ == '__main__':
    main()
