"""Implementation adapter for C20: runs the real bitcoinlib Service / Cache against programmable fake providers.

Request line :  <network> <cachemode> <step> <step> ...
  cachemode  :  file (one sqlite cache shared by all steps of the case, emptied before the case) | off (cache_uri='')
  step       :  method/arg/minp/maxp/maxe/dt/prov+prov+...       (a NEW Service object is constructed for every step)
  prov       :  id:prio:tb:static:bc:q
                 static  n normal | u no url | k api key needed | m provider module missing | x client constructor raises
                 bc, q   outcome for 'blockcount' (constructor and later) and for the queried method:
                         o<val> answer | e<id> raise ClientError('boom<id>') | a raise AttributeError | f return False
                         | n client has no such method
  val        :  i<int> | N | s<id> | t<k>c / t<k>u (corpus transaction k, confirmed / unconfirmed) | L<n>v<b> | d<id>
  seeding    :  seedaddr/<addr>.<last_block|N>.<balance|N>/...   calls Cache.store_address directly (warm address cache)
Answer line  :  per step  <ret> R=<id>:<val>,.. E=<id>:<err>,.. C=<provider call order>   joined by ' ; '

Address index (cachemode xfile | xoff):  <network> <cachemode> W:<tx>,<tx>,.. <step> ..
  tx         :  height.src.dst.oidx.value.flag.storable    the chain history, oldest first (ids = positions)
                 height 0 = unconfirmed; src F (foreign input) | j (spends the observed output of tx j);
                 dst 0 | 1 (ADDRS_X) | B (foreign); oidx output_n of the observed output (1: a foreign output in front);
                 flag N|F|T spent flag as the provider reports it; storable 0 = the provider gives no input value
  step       :  gettransactions/<addr>.<after|-|x>.<limit>/..  getutxosx/<addr>.<after|-|x>.<limit>/..
                gettransactionx/<k|x>/..  cacheinfo/<addr>/..      (after / k = position in the world, x = unknown id)
                getblock/<height>.<parse 0|1>.<page>.<limit>/..   (the block holds the world transactions of that height)
  prov q     :  v<m>  the provider knows the first m transactions of the world and answers the query it is asked
                (gettransactions / getutxos: those of the address after after_txid, at most limit; gettransaction: the
                transaction or ClientError('boom404')) | e<id> | a | f | n | o<val> as above
  answer     :  X<k>h<height>s<flag>.. | U<k>n<n>v<value>h<height>.. | x<k>h..s.. | B<height>c<tx_count>:<tx>.<tx>..
                (block: transactions as above, or i<k> for ids)   + N=<results_cache_n> K=<complete>
"""
import sys, os, json, types, logging, sqlite3, hashlib, subprocess
sys.path.insert(0, os.path.dirname(os.path.abspath(__file__)))
logging.disable(logging.CRITICAL)

NWORK = int(os.environ.get('C20_WORKERS', '12'))


def fan_out(lines):
    """split the request lines over worker processes, each with its own data directory"""
    base = os.environ['BCL_DATA_DIR'].rstrip(os.sep)
    n = min(NWORK, max(1, len(lines) // 200))
    chunks = [lines[i::n] for i in range(n)]
    procs = []
    for w, ch in enumerate(chunks):
        env = dict(os.environ, C20_WORKER='1', BCL_DATA_DIR=base + '_w%d' % w + os.sep)
        os.makedirs(env['BCL_DATA_DIR'], exist_ok=True)
        p = subprocess.Popen([sys.executable, os.path.abspath(__file__)], stdin=subprocess.PIPE, stdout=subprocess.PIPE,
                             env=env, text=True)
        procs.append((p, ch))
    import threading
    outs = [None] * n

    def run(i):
        p, ch = procs[i]
        o, _ = p.communicate(''.join(ch))
        outs[i] = o.split('\n')[:len(ch)]
    ths = [threading.Thread(target=run, args=(i,)) for i in range(n)]
    [t.start() for t in ths]
    [t.join() for t in ths]
    res = [None] * len(lines)
    for w in range(n):
        for j, o in enumerate(outs[w]):
            res[w + j * n] = o
    sys.stdout.write('\n'.join('CRASH worker' if r is None else r for r in res) + '\n')


if __name__ == '__main__' and not os.environ.get('C20_WORKER'):
    _lines = sys.stdin.readlines()
    if len(_lines) >= 400 and NWORK > 1:
        fan_out(_lines)
        sys.exit(0)
else:
    _lines = None

import datetime as _dt
import bitcoinlib                                         # noqa: E402  (creates the data directory)
from bitcoinlib import services as S                      # noqa: E402
from bitcoinlib.services import services as SS            # noqa: E402
from bitcoinlib.services.services import Service, ServiceError, Cache   # noqa: E402
from bitcoinlib.services.baseclient import ClientError    # noqa: E402
from bitcoinlib.transactions import Transaction           # noqa: E402
from bitcoinlib.blocks import Block                       # noqa: E402
from bitcoinlib.networks import Network                   # noqa: E402

DATA = os.environ['BCL_DATA_DIR']
CACHE_FILE = os.path.join(DATA, 'c20_cache.sqlite')
CACHE_URI = 'sqlite:///' + CACHE_FILE
H0 = 800000

# ------------------------------------------------------------------ controlled clock / random
CLOCK = [0]
BASE = _dt.datetime(2030, 1, 1)


class FakeDT(_dt.datetime):
    @classmethod
    def now(cls, tz=None):
        return BASE + _dt.timedelta(seconds=CLOCK[0])


class FakeTime:
    @staticmethod
    def time():
        return 1000000.0 + CLOCK[0]


class FakeRandom:
    tb = [0.5]
    n = 0

    def random(self):
        v = self.tb[self.n % len(self.tb)]
        self.n += 1
        return v

    def shuffle(self, lst):
        pass


SS.datetime = FakeDT
SS.time = FakeTime
FRANDOM = FakeRandom()
SS.random = FRANDOM

# ------------------------------------------------------------------ corpus
RAWS = [
    '0100000001c59c1304f1c0749cda6f0c358a090b26236bf542bf09d0808e6edae4aac513cb010000006a473044022036f11c02e964d2e93d307645c784b451e418de85de3fb269bbf542b1fffafc5002205019ac02ecb3749825fca30da8f5deabf3dae3f9a7606dbf702b19b85c55a51981210337ab1266172bd19ad17062a47c0c7c9e154e54cec9e979d5fdfadd52a5ae3a5dffffffff030000000000000000166a146f6d6e69000000000000001f000000037e11d6003ab85200000000001976a914c12632196e7884ca345bd0016b19fe38359e724d88ac22020000000000001976a91471a29f974cc44430be23190a9cbc0e55bcb26e8588ac00000000',
    '02000000000101b99ef54dd7695be7574ac6fb4a6d1a2dd98cb4ec7ee53b06117754da424a4c440100000000ffffffff0112d62d1e00000000160014f922634ea00272421ffdb6f187935602159e17500247304402204c040218c1a5dc87e0ba359706fbd0c9c36063fd89c6b4dd900e03cd69de7fd602204c7ebe180a072cc415ba3337dd66d259a4c7de2b563269a90e055f91898bcf590121025477b3e0aa2619e1ed61b7734b31369c156d9ff7fcbcdc1b7e3c79ed657aab0f00000000',
    '010000000001016768c8454c2d561957e13baabf9641382337f89e5854343895b46ab368bbd6350000000017160014d60b21752adc62eb3117b0b2bd00b0126d8e0157ffffffff024aae8b060000000017a914d966f0e3e05e3ab1209524338ff61b32eb2aa58887be5d9b00000000001600148ceebc8944c8bb2af9f6714d60c88860191032f302473044022025a38facc3e83e532a6ad5a09ff2cc5e10bf1b09249169b233c5a3ffc21003de022031715687bc57778f7564924861a2d821b4eb6d15b1957ef8955fd7d6f93df7bd0121034168c3df0c9db74c8159388b270a6dbb30778b8ac74e6b456ad1ebb8c4bb344f00000000',
    '01000000000101c114c54564ea09b33c73bfd0237a4d283fe9e73285ad6d34fd3fa42c99f194640300000000ffffffff0200e1f5050000000017a914e10a445f3084bd131394c66bf0023653dcc247ab877cdb3b0300000000220020701a8d401c84fb13e6baf169d59684e17abd9fa216c8cc5b9fc63d622ff8c58d04004830450221009c5bd2fa1acb5884fca1612217bd65992c96c839accea226a3c59d7cc28779c502202cff98a71d195ab61c08fc126577466bb05ae0bfce5554b59455bd758309d49501483045022100f81ce75339657d31698793e78f475c04fe56bafdb3cfc6e1035846aeeeb98f7902203ad5b1bcb96494457197cb3c12b67ddd3cf8127fe054dec971c858252c004bf8016952210375e00eb72e29da82b89367947f29ef34afb75e8654f6ea368e0acdfd92976b7c2103a1b26313f430c4b15bb1fdce663207659d8cac749a0e53d70eff01874496feff2103c96d495bfdd5ba4145e3e046fee45e84a8a48ad05bd8dbb395c011a32cf9f88053ae00000000',
    '02000000010000000000000000000000000000000000000000000000000000000000000000ffffffff4d03f6591c046945e35e2f706f6f6c696e2e636f6d2ffabe6d6d3bd89000dd7bd942b167b95cca4bf887bb60a45511c7fe875b4ece484489335101000000000000001f9aff78ef65000000000000ffffffff026dd1b34a000000001976a914b0b0451e297b39ea0f52982793fb245ff446438988ac0000000000000000266a24aa21a9ed9eed30e9aebb9f3b08026a3c3105e3ca963a895cf5f9b55037cfdf592c02d77100000000',
]
ADDRS = ['1A1zP1eP5QGefi2DMPTfTL5SLmv7DivfNa', '12c6DSiU4Rq3P4ZxziKxzrL5LmMBrzjrJX', 'bc1qar0srrr7xfkvy5l643lydnw9re59gtzzwf5mdq']
NET = ['bitcoin']
SPENT = [False, None, True, False, None]      # spent flag of output 0 as the provider reports it


def make_tx(k, confirmed):
    """what a provider client hands back: parsed transaction + block/date/input values when confirmed"""
    t = Transaction.parse_hex(RAWS[k], strict=False, network=NET[0])
    tot_out = sum(o.value for o in t.outputs)
    for n, i in enumerate(t.inputs):
        if not t.coinbase:
            i.value = tot_out // len(t.inputs) + 1000 + n
    if confirmed:
        t.block_height = H0 - 100 - k
        t.date = _dt.datetime(2023, 5, 1 + k, 12, 0, 0, tzinfo=_dt.timezone.utc)
        t.confirmations = 101 + k
        t.status = 'confirmed'
    else:
        t.block_height = None
        t.date = None
        t.confirmations = 0
        t.status = 'unconfirmed'
    t.outputs[0].spent = SPENT[k]
    t.update_totals()
    return t


def tx_digest(t):
    """the observable content of a transaction that a cached copy must preserve"""
    h = hashlib.sha256()
    h.update(repr((t.version_int, t.locktime, t.witness_type, bool(t.coinbase), t.raw_hex(),
                   [(i.prev_txid.hex(), i.output_n_int, bytes(i.unlocking_script).hex(), i.sequence, i.value,
                     [bytes(w).hex() for w in i.witnesses]) for i in t.inputs],
                   [(o.value, bytes(o.lock_script).hex(), o.address) for o in t.outputs])).encode())
    return h.hexdigest()


CORPUS_TXID = []
CORPUS_DIG = {}


def build_corpus():
    CORPUS_TXID.clear()
    CORPUS_DIG.clear()
    for k in range(len(RAWS)):
        for c in (True, False):
            t = make_tx(k, c)
            if c:
                CORPUS_TXID.append(t.txid)
            CORPUS_DIG[tx_digest(t)] = k


def utxo_list(n, b):
    return [{'address': ADDRS[0], 'txid': '%064x' % (0xabc000 + b + j), 'confirmations': 10, 'output_n': j, 'input_n': 0,
             'block_height': H0 - 10, 'fee': None, 'size': 0, 'value': b + j, 'script': '', 'date': None}
            for j in range(n)]


def build_value(tok, method, args):
    c = tok[0]
    if c == 'i':
        if method == 'getbalance' and args and not args[0]:
            return 0          # a real client asked for the balance of no address answers 0
        return int(tok[1:])
    if c == 'N':
        return None
    if c == 's':
        return 'garbage' + tok[1:]
    if c == 't':
        return make_tx(int(tok[1:-1]), tok[-1] == 'c')
    if c == 'L':
        n, b = tok[1:].split('v')
        return utxo_list(int(n), int(b))
    if c == 'd':
        return {'txid': '%064x' % int(tok[1:]), 'response_dict': {'id': int(tok[1:])}}
    if c == 'r':
        return RAWS[int(tok[1:])]
    if c == 'B':
        return tok[1:] == '1'
    raise ValueError(tok)


def val_token(v):
    if v is True:
        return 'T'
    if v is False:
        return 'F'
    if v is None:
        return 'N'
    if isinstance(v, int):
        return 'i%d' % v
    if isinstance(v, str):
        if v.startswith('garbage'):
            return 's' + v[7:]
        if v in RAWS:
            return 'r%d' % RAWS.index(v)
        return 'S?' + v[:16]
    if isinstance(v, Transaction):
        try:
            k = CORPUS_DIG.get(tx_digest(v))
        except Exception as e:
            k = None
        j = CORPUS_TXID.index(v.txid) if v.txid in CORPUS_TXID else '?'
        return 't%s%s@%s' % ('?' if k is None else k, 'c' if v.block_height else 'u', j)
    if isinstance(v, list):
        if all(isinstance(u, dict) and 'value' in u for u in v):
            if not v:
                return 'L0v0'
            b = v[0]['value']
            if v == utxo_list(len(v), b):
                return 'L%dv%d' % (len(v), b)
        return 'L?'
    if isinstance(v, dict):
        if set(v) == {'txid', 'response_dict'} and v == build_value('d%d' % int(v['txid'], 16), '', ()):
            return 'd%d' % int(v['txid'], 16)
        return 'D?'
    return '?' + type(v).__name__


# ------------------------------------------------------------------ fake providers
PROG = {}       # (pid, method) -> outcome token
STATIC = {}     # pid -> static kind
CALLS = []


class FakeClientBase(object):
    pid = None

    def __init__(self, network, base_url, denominator, api_key, provider_coin_id, network_overrides, timeout,
                 latest_block, strict, wallet_name):
        if STATIC.get(self.pid) == 'x':
            raise ClientError('boom99')

    def __getattr__(self, method):
        if method.startswith('__'):
            raise AttributeError(method)
        o = PROG.get((self.pid, method))
        if o is None or o == 'n':
            raise AttributeError(method)
        pid = self.pid

        def call(*args):
            CALLS.append(pid)
            if o[0] == 'v':
                return view_answer(int(o[1:]), method, args)
            if o[0] == 'o':
                return build_value(o[1:], method, args)
            if o[0] == 'e':
                raise ClientError('boom' + o[1:])
            if o == 'a':
                raise AttributeError('inside provider')
            if o == 'f':
                return False
            raise ValueError(o)
        return call


for _i in range(4):
    _m = types.ModuleType('fakeprov%d' % _i)
    _m.FakeClient = type('FakeClient', (FakeClientBase,), {'pid': _i})
    setattr(S, 'fakeprov%d' % _i, _m)


def write_providers(provs, network):
    d = {}
    for p in provs:
        pid, st = p['id'], p['static']
        d['fp%d' % pid] = dict(provider=('missingprov%d' % pid) if st == 'm' else 'fakeprov%d' % pid, network=network,
                               client_class='FakeClient', provider_coin_id='', url='' if st == 'u' else 'http://fake/',
                               api_key='api-key-needed' if st == 'k' else '', priority=p['prio'], denominator=1,
                               network_overrides=None, timeout=0)
    with open(os.path.join(DATA, 'providers.json'), 'w') as f:
        json.dump(d, f)


def parse_provs(s):
    out = []
    if s == '-':
        return out
    for t in s.split('+'):
        a = t.split(':')
        out.append(dict(id=int(a[0]), prio=int(a[1]), tb=int(a[2]), static=a[3], bc=a[4], q=a[5]))
    return out


PROVIDER_METHOD = {'blockcount': 'blockcount', 'init': 'blockcount'}


def err_token(e):
    s = str(e)
    if s == 'Received empty response':
        return 'E'
    if s.startswith('boom'):
        return 'e' + s[4:]
    return '?' + s[:30]


def close(srv):
    try:
        ses = srv.cache.session
        if ses is not None:
            eng = ses.get_bind()
            ses.close()
            eng.dispose()
    except Exception:
        pass

# ------------------------------------------------------------------ the address index: worlds of real transactions
XKEYS = {}
WORLD = []        # the current case: list of dict(spec fields, raw, txid, addr ...)
WORLD_MEMO = {}
UNKNOWN_TXID = 'ee' * 32


def xkeys():
    if not XKEYS:
        from bitcoinlib.keys import Key
        for name, sec in (('0', '11'), ('1', '12'), ('F', '13'), ('B', '14')):
            XKEYS[name] = Key(sec * 32, network=NET[0])
        XKEYS['net'] = NET[0]
    return XKEYS


def build_world(spec):
    """spec 'W:tx,tx,..' -> list of world entries with real signed raw transactions (memoised per prefix)"""
    ks = xkeys()
    body = spec[2:]
    out = []
    if not body:
        return out
    prefix = ''
    for k, sp in enumerate(body.split(',')):
        prefix += ',' + sp
        memo = WORLD_MEMO.get((NET[0], prefix))
        if memo is None:
            h, src, dst, oidx, val, flag, stor = sp.split('.')
            h, oidx, val = int(h), int(oidx), int(val)
            t = Transaction(network=NET[0], witness_type='legacy')
            if src == 'F':
                inval = val + 1000 + (546 if oidx else 0)
                t.add_input(prev_txid=bytes([k + 1]) * 32, output_n=0, keys=ks['F'].public(), value=inval,
                            witness_type='legacy')
                signer = ks['F']
                src_addr = None
            else:
                pj = out[int(src)]
                inval = pj['value']
                t.add_input(prev_txid=pj['txid'], output_n=pj['oidx'], keys=ks[pj['dst']].public(), value=inval,
                            witness_type='legacy')
                signer = ks[pj['dst']]
                src_addr = pj['dst'] if pj['dst'] in ('0', '1') else None
            if oidx:
                t.add_output(546, ks['B'].address())
            t.add_output(val, ks[dst].address())
            t.sign(signer)
            raw = t.raw_hex()
            txid = Transaction.parse_hex(raw, network=NET[0]).txid
            memo = dict(height=h, src=src, src_addr=src_addr, dst=dst, oidx=oidx, value=val, inval=inval,
                        flag={'N': None, 'F': False, 'T': True, 'A': 'A'}[flag], storable=stor == '1', raw=raw, txid=txid)
            WORLD_MEMO[(NET[0], prefix)] = memo
        out.append(memo)
    return out


def world_tx(k, m):
    """a fresh Transaction object as a provider client that knows the first m transactions hands it back"""
    w = WORLD[k]
    t = Transaction.parse_hex(w['raw'], network=NET[0])
    if w['height']:
        t.block_height = w['height']
        t.confirmations = H0 - w['height'] + 1
        t.date = _dt.datetime(2021, 9, 11, 12, 0, 0, tzinfo=_dt.timezone.utc)
        t.status = 'confirmed'
    else:
        t.block_height = None
        t.confirmations = 0
        t.date = None
        t.status = 'unconfirmed'
    t.inputs[0].value = w['inval'] if w['storable'] else 0
    t.outputs[w['oidx']].spent = any(WORLD[i]['src'] == str(k) for i in range(m)) if w['flag'] == 'A' else w['flag']
    if w['storable']:
        t.update_totals()
    return t


def xaddr(a):
    return xkeys()[str(a)].address()


def world_touches(k, a):
    w = WORLD[k]
    return w['src_addr'] == str(a) or w['dst'] == str(a)


def block_header(h):
    """deterministic header fields of the block at height h"""
    d = lambda tag: hashlib.sha256(('%s%d' % (tag, h)).encode()).hexdigest()
    return dict(block_hash=d('blk'), version=0x20000000, prev_block=d('blk%d' % (h - 1)) if False else d('prev'),
                merkle_root=d('mrk'), time=1600000000 + h, bits=0x1d00ffff, nonce=h % 100000 + 7)


def view_answer(m, method, args):
    m = min(m, len(WORLD))
    if method == 'getblock':
        h, parse, page, limit = args
        ks = [k for k in range(len(WORLD)) if WORLD[k]['height'] == h]
        if not h or not ks or max(ks) >= m:
            raise ClientError('boom404')
        hd = block_header(h)
        page_ks = ks[max((page - 1) * limit, 0):][:max(limit, 0)]
        hd.update(txs=[world_tx(k, m) if parse else WORLD[k]['txid'] for k in page_ks], height=h, depth=H0 - h + 1,
                  tx_count=len(ks))
        return hd
    if method == 'gettransaction':
        for k in range(m):
            if WORLD[k]['txid'] == args[0]:
                return world_tx(k, m)
        raise ClientError('boom404')
    address, after_txid, limit = args[0], args[1], args[2]
    a = [x for x in ('0', '1') if xaddr(x) == address]
    a = a[0] if a else None
    mine = [k for k in range(m) if world_touches(k, a)]
    if after_txid:
        ids = [WORLD[k]['txid'] for k in mine]
        mine = mine[ids.index(after_txid) + 1:] if after_txid in ids else []
    if method == 'gettransactions':
        return [world_tx(k, m) for k in mine][:max(limit, 0)]
    if method == 'getutxos':
        spent = set(WORLD[k]['src'] for k in range(m) if WORLD[k]['src_addr'] == a)   # world positions of spent outputs
        us = []
        for k in mine:
            w = WORLD[k]
            if w['dst'] == a and str(k) not in spent:
                us.append({'address': address, 'txid': w['txid'], 'confirmations': (H0 - w['height'] + 1) if w['height'] else 0,
                           'output_n': w['oidx'], 'input_n': 0, 'block_height': w['height'] or None, 'fee': None, 'size': 0,
                           'value': w['value'], 'script': '', 'date': None})
        return us[:max(limit, 0)]
    raise AttributeError(method)


def world_index(txid):
    for k, w in enumerate(WORLD):
        if w['txid'] == txid:
            return k
    return None


FLAG = {None: 'N', False: 'F', True: 'T'}


def xtx_token(t):
    k = world_index(t.txid)
    if k is None:
        return '?' + str(t.txid)[:8]
    w = WORLD[k]
    try:
        ok = t.raw_hex() == w['raw'] and len(t.outputs) > w['oidx'] and t.outputs[w['oidx']].value == w['value'] and \
            t.inputs[0].value == (w['inval'] if w['storable'] else 0) and t.outputs[w['oidx']].address == xkeys()[w['dst']].address()
    except Exception:
        ok = False
    fl = FLAG.get(t.outputs[w['oidx']].spent, '?') if len(t.outputs) > w['oidx'] else '?'
    return '%s%dh%ds%s' % ('' if ok else '!', k, t.block_height or 0, fl)


def xval_token(v, ids_only=False):
    if isinstance(v, Block):
        return xblock_token(v, ids_only)
    if isinstance(v, dict) and 'block_hash' in v and 'height' in v:
        return 'Bi%s' % v['height']
    if isinstance(v, Transaction):
        return ('xi%s' % world_index(v.txid)) if ids_only else 'x' + xtx_token(v)
    if isinstance(v, list) and v and all(isinstance(t, Transaction) for t in v):
        if ids_only:
            return 'Xi' + '.'.join(str(world_index(t.txid)) for t in v)
        return 'X' + '.'.join(xtx_token(t) for t in v)
    if isinstance(v, list) and v and all(isinstance(u, dict) and 'txid' in u and 'output_n' in u for u in v):
        if ids_only:
            return 'Ui' + '.'.join(str(world_index(u['txid'])) for u in v)
        return 'U' + '.'.join('%sn%sv%sh%s' % (world_index(u['txid']), u['output_n'], u['value'], u['block_height'] or 0)
                              for u in v)
    if isinstance(v, list) and not v:
        return 'X'
    return val_token(v)


def xblock_token(b, ids_only=False):
    if ids_only:
        return 'Bi%s' % b.height
    hd = block_header(b.height or 0)
    try:
        ok = b.block_hash.hex() == hd['block_hash'] and b.prev_block.hex() == hd['prev_block'] and \
            b.merkle_root.hex() == hd['merkle_root'] and b.time == hd['time'] and b.bits_int == hd['bits'] and \
            b.nonce_int == hd['nonce'] and b.version_int == hd['version']
    except Exception:
        ok = False
    items = []
    for t in b.transactions:
        if isinstance(t, Transaction):
            items.append(xtx_token(t))
        else:
            k = world_index(t)
            items.append('i%s' % ('?' if k is None else k))
    return '%sB%sc%s:%s' % ('' if ok else '!', b.height, b.tx_count, '.'.join(items))


def xid(s):
    if s == '-':
        return ''
    if s == 'x':
        return UNKNOWN_TXID
    return WORLD[int(s)]['txid']


def run_xstep(step, network, cache_uri):
    method, arg, minp, maxp, maxe, dt, provs = step.split('/')
    provs = parse_provs(provs)
    write_providers(provs, network)
    PROG.clear()
    STATIC.clear()
    pm = {'getutxosx': 'getutxos', 'gettransactionx': 'gettransaction'}.get(method, method)
    for p in provs:
        STATIC[p['id']] = p['static']
        PROG[(p['id'], 'blockcount')] = p['bc']
        if pm != 'cacheinfo':
            PROG[(p['id'], pm)] = p['q']
    FRANDOM.tb = [p['tb'] / 16.0 for p in provs] or [0.5]
    FRANDOM.n = 0
    del CALLS[:]
    try:
        srv = Service(network=network, min_providers=int(minp), max_providers=int(maxp), max_errors=int(maxe),
                      cache_uri=cache_uri)
    except ServiceError:
        return 'INITERR'
    except Exception as e:
        return 'INITOTHERERR C=%s X=%s' % (','.join(map(str, CALLS)) or '-', type(e).__name__)
    ncalls_init = len(CALLS)
    CLOCK[0] += int(dt)
    exc = ''
    empty = 'X'
    try:
        if method == 'gettransactions':
            a, after, limit = arg.split('.')
            ret = xval_token(srv.gettransactions(xaddr(a), after_txid=xid(after), limit=int(limit)))
        elif method == 'getutxosx':
            a, after, limit = arg.split('.')
            ret = xval_token(srv.getutxos(xaddr(a), after_txid=xid(after), limit=int(limit)))
            if ret == 'X':
                ret = 'U'
            empty = 'U'
        elif method == 'gettransactionx':
            ret = xval_token(srv.gettransaction(xid(arg)))
        elif method == 'cacheinfo':
            d = srv.getcacheaddressinfo(xaddr(arg))
            ret = 'A' + '.'.join(val_token(d.get(k)) for k in ('balance', 'last_block', 'n_txs', 'n_utxos')) \
                if 'balance' in d else 'A-'
        elif method == 'getblock':
            h, parse, page, limit = arg.split('.')
            ret = xval_token(srv.getblock(int(h), parse_transactions=parse == '1', page=int(page), limit=int(limit)))
        else:
            return 'BADREQ'
    except ServiceError:
        ret = 'SERVICEERR'
    except Exception as e:
        ret = 'OTHERERR'
        exc = type(e).__name__
        try:
            srv.cache.session.rollback()
        except Exception:
            pass

    def rtok(v):
        t = xval_token(v, ids_only=True)
        if t == 'X':
            return empty + 'i'
        return t
    r = ','.join('%s:%s' % (k[2:], rtok(v)) for k, v in srv.results.items()) or '-'
    e = ','.join('%s:%s' % (k[2:], err_token(v)) for k, v in srv.errors.items()) or '-'
    out = '%s R=%s E=%s N=%s K=%s C=%s|%s' % (ret, r, e, srv.results_cache_n, FLAG.get(srv.complete, '?'),
                                             ','.join(map(str, CALLS[:ncalls_init])) or '-',
                                             ','.join(map(str, CALLS[ncalls_init:])) or '-')
    if exc:
        out += ' X=' + exc
    close(srv)
    return out


def run_step(step, network, cache_uri):
    method, arg, minp, maxp, maxe, dt, provs = step.split('/')
    if method == 'seedaddr':
        a, lb, bal = arg.split('.')
        c = Cache(Network(network), db_uri=cache_uri)
        c.store_address(ADDRS[int(a)], last_block=None if lb == 'N' else int(lb), balance=None if bal == 'N' else int(bal))
        if c.session is not None:
            eng = c.session.get_bind()
            c.session.close()
            eng.dispose()
        return 'seeded'
    provs = parse_provs(provs)
    write_providers(provs, network)
    PROG.clear()
    STATIC.clear()
    pm = PROVIDER_METHOD.get(method, method)
    for p in provs:
        STATIC[p['id']] = p['static']
        PROG[(p['id'], 'blockcount')] = p['bc']
        if pm != 'blockcount':
            PROG[(p['id'], pm)] = p['q']
    FRANDOM.tb = [p['tb'] / 16.0 for p in provs] or [0.5]
    FRANDOM.n = 0
    del CALLS[:]
    try:
        srv = Service(network=network, min_providers=int(minp), max_providers=int(maxp), max_errors=int(maxe),
                      cache_uri=cache_uri)
    except ServiceError:
        return 'INITERR'
    except Exception as e:
        return 'INITOTHERERR C=%s X=%s' % (','.join(map(str, CALLS)) or '-', type(e).__name__)
    ncalls_init = len(CALLS)
    CLOCK[0] += int(dt)
    exc = ''
    try:
        if method == 'init':
            ret = 'ok'
        elif method == 'getbalance':
            ret = val_token(srv.getbalance(ADDRS[int(arg)]))
        elif method == 'getutxos':
            ret = val_token(srv.getutxos(ADDRS[int(arg)]))
        elif method == 'gettransaction':
            ret = val_token(srv.gettransaction(CORPUS_TXID[int(arg)]))
        elif method == 'getrawtransaction':
            ret = val_token(srv.getrawtransaction(CORPUS_TXID[int(arg)]))
        elif method == 'isspent':
            ret = val_token(srv.isspent(CORPUS_TXID[int(arg)], 0))
        elif method == 'estimatefee':
            ret = val_token(srv.estimatefee(int(arg)))
        elif method == 'blockcount':
            ret = val_token(srv.blockcount())
        elif method == 'sendrawtransaction':
            ret = val_token(srv.sendrawtransaction(RAWS[int(arg)]))
        elif method == 'getrawblock':
            ret = val_token(srv.getrawblock(int(arg)))
        elif method == 'mempool':
            ret = val_token(srv.mempool(CORPUS_TXID[int(arg)]))
        elif method == 'getinfo':
            ret = val_token(srv.getinfo())
        elif method == 'cacheinfo':
            d = srv.getcacheaddressinfo(ADDRS[int(arg)])
            ret = 'A' + '.'.join(val_token(d.get(k)) for k in ('balance', 'last_block', 'n_txs', 'n_utxos')) \
                if 'balance' in d else 'A-'
        else:
            return 'BADREQ'
    except ServiceError:
        ret = 'SERVICEERR'
    except Exception as e:
        ret = 'OTHERERR'
        exc = type(e).__name__
        try:
            srv.cache.session.rollback()
        except Exception:
            pass
    r = ','.join('%s:%s' % (k[2:], val_token(v)) for k, v in srv.results.items()) or '-'
    e = ','.join('%s:%s' % (k[2:], err_token(v)) for k, v in srv.errors.items()) or '-'
    out = '%s R=%s E=%s C=%s|%s' % (ret, r, e, ','.join(map(str, CALLS[:ncalls_init])) or '-',
                                   ','.join(map(str, CALLS[ncalls_init:])) or '-')
    if exc:
        out += ' X=' + exc
    close(srv)
    return out


# ------------------------------------------------------------------ the shared HTTP layer: REAL client classes, scripted transport
# request line:  <network> http <method>/<prov>+<prov>+..      prov = <name>:<prio>:<status|T|C>:<body kind>
#   name  bs blockstream | mp mempool | sm blocksmurfer   (the repository's own client classes, through BaseClient.request)
#   status an HTTP status code, or T (requests Timeout raised) / C (requests ConnectionError raised)
#   body  ok (a valid answer in that provider's format, value tagged with the provider) | empty | null | list | obj | queued
#         | badjson | html
# answer:  <ret json | FAIL | X:<exception>> R=<names with a result> E=<names with an error> C=<providers asked, in order>
from bitcoinlib.services import baseclient as BC          # noqa: E402
import requests as _rq                                    # noqa: E402

HTTP_PROV = {'bs': ('blockstream', 'BlockstreamClient', 'http://bs.test/api/'),
             'mp': ('mempool', 'MempoolClient', 'http://mp.test/api/'),
             'sm': ('blocksmurfer', 'BlocksmurferClient', 'http://sm.test/api/')}
HTTP_IDX = {'bs': 0, 'mp': 1, 'sm': 2}
HTTP_PLAN = {}      # name -> (status, body kind)
HTTP_STATE = {'phase': 'init', 'method': ''}
HTTP_CALLS = []
HTTP_BODIES = {'empty': '', 'null': 'null', 'list': '[]', 'obj': '{}', 'queued': '{"status": "queued"}',
               'badjson': '{"result": ', 'html': '<html><body><h1>Service temporarily unavailable</h1></body></html>'}
HTTP_ADDR = '1A1zP1eP5QGefi2DMPTfTL5SLmv7DivfNa'
HTTP_TXID = 'c3' * 32
HTTP_RAW = '0100000001' + 'ab' * 20


def http_ok_body(name, method):
    """a valid answer of provider `name` to `method`, in the format that provider documents; the value carries the provider"""
    i = HTTP_IDX[name]
    if method == 'blockcount':
        return json.dumps({'blockcount': 800000 + i}) if name == 'sm' else str(800000 + i)
    if method == 'getrawtransaction':
        raw = HTTP_RAW + '%02x' % i
        return json.dumps({'raw_hex': raw, 'txid': HTTP_TXID}) if name == 'sm' else raw
    if method == 'sendrawtransaction':
        txid = 'ab' * 31 + '%02x' % i
        return json.dumps({'txid': txid}) if name == 'sm' else txid
    if method == 'mempool':
        return json.dumps(['d%d' % i * 32, 'e%d' % i * 32])
    if method == 'estimatefee':
        if name == 'bs':
            return json.dumps({'1': 30.5 + i, '2': 21.0 + i, '3': 11.0 + i, '6': 5.0, '25': 2.0, '144': 1.0})
        if name == 'mp':
            return json.dumps({'fastestFee': 30 + i, 'halfHourFee': 20 + i, 'hourFee': 10 + i, 'economyFee': 4, 'minimumFee': 2})
        return json.dumps({'blocks': 3, 'estimated_fee_sat_kb': 15000 + i})
    if method == 'getbalance':
        if name == 'sm':
            return json.dumps({'address': HTTP_ADDR, 'balance': 5000 + i})
        return json.dumps({'address': HTTP_ADDR, 'chain_stats': {'funded_txo_count': 3, 'funded_txo_sum': 9000 + i,
                                                                 'spent_txo_count': 1, 'spent_txo_sum': 2000, 'tx_count': 4},
                           'mempool_stats': {'funded_txo_count': 0, 'funded_txo_sum': 0, 'spent_txo_count': 0,
                                             'spent_txo_sum': 0, 'tx_count': 0}})
    raise ValueError(method)


def _http_response(status, text, url):
    r = _rq.models.Response()
    r.status_code = status
    r._content = text.encode('utf-8')
    r.encoding = 'utf-8'
    r.url = url
    r.reason = 'scripted'
    return r


def _http_transport(kind):
    def call(url, **kw):
        name = [n for n, v in HTTP_PROV.items() if url.startswith(v[2])]
        if not name:
            raise _rq.exceptions.ConnectionError('unknown host ' + url)
        name = name[0]
        if HTTP_STATE['phase'] == 'init':
            return _http_response(200, json.dumps({'blockcount': 100}) if name == 'sm' else '100', url)
        HTTP_CALLS.append(name)
        status, body = HTTP_PLAN[name]
        if status == 'T':
            raise _rq.exceptions.ReadTimeout('scripted timeout')
        if status == 'C':
            raise _rq.exceptions.ConnectionError('scripted connection error')
        text = http_ok_body(name, HTTP_STATE['method']) if body == 'ok' else HTTP_BODIES[body]
        return _http_response(int(status), text, url)
    return call


class _FakeRequests(object):
    exceptions = _rq.exceptions
    get = staticmethod(_http_transport('get'))
    post = staticmethod(_http_transport('post'))


def http_token(v):
    try:
        return json.dumps(v, sort_keys=True, separators=(',', ':')).replace(' ', '_')
    except Exception:
        return 'T:' + type(v).__name__


def run_http(step, network):
    method, provs = step.split('/')
    d = {}
    HTTP_PLAN.clear()
    for t in provs.split('+'):
        name, prio, status, body = t.split(':')
        mod, cls, url = HTTP_PROV[name]
        d[name] = dict(provider=mod, network=network, client_class=cls, provider_coin_id='', url=url, api_key='',
                       priority=int(prio), denominator=1, network_overrides=None, timeout=0)
        HTTP_PLAN[name] = (status, body)
    with open(os.path.join(DATA, 'providers.json'), 'w') as f:
        json.dump(d, f)
    FRANDOM.tb = [0.5]
    FRANDOM.n = 0
    real = BC.requests
    BC.requests = _FakeRequests
    srv = None
    try:
        HTTP_STATE.update(phase='init', method=method)
        del HTTP_CALLS[:]
        try:
            srv = Service(network=network, cache_uri='')
        except Exception as e:
            return 'INITERR ' + type(e).__name__
        HTTP_STATE['phase'] = 'query'
        CLOCK[0] += 60
        try:
            if method == 'blockcount':
                ret = srv.blockcount()
            elif method == 'getrawtransaction':
                ret = srv.getrawtransaction(HTTP_TXID)
            elif method == 'sendrawtransaction':
                ret = srv.sendrawtransaction(HTTP_RAW)
                ret = ret['txid'] if isinstance(ret, dict) and 'txid' in ret else ret
            elif method == 'mempool':
                ret = srv.mempool()
            elif method == 'estimatefee':
                ret = srv.estimatefee(3)
            elif method == 'getbalance':
                ret = srv.getbalance([HTTP_ADDR])
            else:
                return 'BADREQ'
            ret = http_token(ret)
        except ServiceError:
            ret = 'FAIL'
        except Exception as e:
            ret = 'X:' + type(e).__name__
        return '%s R=%s E=%s C=%s' % (ret, ','.join(srv.results.keys()) or '-', ','.join(srv.errors.keys()) or '-',
                                      ','.join(HTTP_CALLS) or '-')
    finally:
        BC.requests = real
        if srv is not None:
            close(srv)


def clear_cache():
    if os.path.exists(CACHE_FILE):
        con = sqlite3.connect(CACHE_FILE)
        for t in ('cache_transactions_node', 'cache_transactions', 'cache_address', 'cache_blocks', 'cache_variables'):
            try:
                con.execute('DELETE FROM ' + t)
            except sqlite3.OperationalError:
                pass
        con.commit()
        con.close()


def do_case(line):
    toks = line.split()
    if len(toks) < 3:
        return 'BADREQ'
    network, mode = toks[0], toks[1]
    if NET[0] != network or not CORPUS_TXID:
        NET[0] = network
        build_corpus()
    CLOCK[0] = 0
    if mode == 'file':
        clear_cache()
        uri = CACHE_URI
    elif mode == 'off':
        uri = ''
    elif mode == 'http':
        outs = []
        for st in toks[2:]:
            try:
                outs.append(run_http(st, network))
            except Exception as e:
                outs.append('CRASH %s %s' % (type(e).__name__, str(e)[:80].replace('\n', ' ')))
        return ' ; '.join(outs)
    elif mode in ('xfile', 'xoff'):
        if XKEYS.get('net') != network:
            XKEYS.clear()
        clear_cache()
        uri = CACHE_URI if mode == 'xfile' else ''
        WORLD[:] = build_world(toks[2])
        outs = []
        for st in toks[3:]:
            try:
                outs.append(run_xstep(st, network, uri))
            except Exception as e:
                outs.append('CRASH %s %s' % (type(e).__name__, str(e)[:80].replace('\n', ' ')))
        return ' ; '.join(outs)
    else:
        return 'BADREQ'
    outs = []
    for st in toks[2:]:
        try:
            outs.append(run_step(st, network, uri))
        except Exception as e:
            outs.append('CRASH %s %s' % (type(e).__name__, str(e)[:80].replace('\n', ' ')))
    return ' ; '.join(outs)


def main():
    lines = _lines if _lines is not None else sys.stdin.readlines()
    out = sys.stdout
    for line in lines:
        line = line.strip()
        try:
            r = do_case(line)
        except Exception as e:
            r = 'CRASH %s %s' % (type(e).__name__, str(e)[:80].replace('\n', ' '))
        out.write(r + '\n')
    out.flush()


if __name__ == '__main__':
    main()
