"""crypto_impl.py — reference answers for the CRYPTO selftest request lines.

Hashes / HMAC / PBKDF2 come from Python's hashlib and hmac (OpenSSL), the curve from fastecdsa (C, GMP) — the
same third-party code /repo itself relies on.  Points are one token: "inf" or "X,Y" (decimal); bytes are hex,
"-" for the empty string.  Nothing of /repo is needed except as a fall-back for RIPEMD-160.
"""
import hashlib, hmac, sys

from fastecdsa import ecdsa as fe_ecdsa, _ecdsa
from fastecdsa.curve import secp256k1 as C
from fastecdsa.encoding.sec1 import SEC1Encoder
from fastecdsa.point import Point
from fastecdsa.util import RFC6979, mod_sqrt

P, N = C.p, C.q
CURVE_ARGS = (str(C.p), str(C.a), str(C.b), str(C.q), str(C.gx), str(C.gy))
INF = Point._identity_element()

try:
    hashlib.new('ripemd160', b'')

    def ripemd160(b):
        return hashlib.new('ripemd160', b).digest()
except Exception:                                            # OpenSSL without the legacy provider
    from bitcoinlib.encoding import ripemd160


def unhex(s):
    return b'' if s == '-' else bytes.fromhex(s)


def hx(b):
    return b.hex() if b else '-'


def pt(tok):
    if tok == 'inf':
        return INF
    x, y = tok.split(',')
    return Point(int(x), int(y), curve=C)


def tok(p):
    return 'inf' if p._is_identity() else '%d,%d' % (p.x, p.y)


def in_field(*vs):
    return all(0 <= v < P for v in vs)


def decode_point(b):
    """SEC 1 2.3.4 via fastecdsa; coordinates that are not field elements (>= p) are rejected here because
    fastecdsa silently reduces them."""
    if len(b) == 33 and b[0] in (2, 3):
        if not in_field(int.from_bytes(b[1:], 'big')):
            return None
    elif len(b) == 65 and b[0] == 4:
        if not in_field(int.from_bytes(b[1:33], 'big'), int.from_bytes(b[33:], 'big')):
            return None
    else:
        return None
    try:
        return SEC1Encoder.decode_public_key(b, C)
    except Exception:
        return None


def answer(t):
    c = t[0]
    if c in ('sha256', 'sha256n'):
        return hx(hashlib.sha256(unhex(t[1])).digest())
    if c == 'sha256d':
        return hx(hashlib.sha256(hashlib.sha256(unhex(t[1])).digest()).digest())
    if c in ('sha512', 'sha512z'):
        return hx(hashlib.sha512(unhex(t[1])).digest())
    if c in ('ripemd160', 'ripemd160z'):
        return hx(ripemd160(unhex(t[1])))
    if c == 'hash160':
        return hx(ripemd160(hashlib.sha256(unhex(t[1])).digest()))
    if c == 'hmac256':
        return hx(hmac.new(unhex(t[1]), unhex(t[2]), hashlib.sha256).digest())
    if c == 'hmac512':
        return hx(hmac.new(unhex(t[1]), unhex(t[2]), hashlib.sha512).digest())
    if c == 'pbkdf2':
        return hx(hashlib.pbkdf2_hmac('sha512', unhex(t[1]), unhex(t[2]), int(t[3]), int(t[4])))
    if c == 'powmod':
        return str(pow(int(t[1]), int(t[2]), int(t[3])))
    if c in ('invmod', 'invmodf'):
        try:
            return str(pow(int(t[1]), -1, int(t[2])))
        except ValueError:
            return '0'
    if c == 'sqrt':
        a = int(t[1]) % P
        r = mod_sqrt(a, P)[0]
        return str(min(r, P - r)) if r * r % P == a else 'NONE'
    if c == 'oncurve':
        if t[1] == 'inf':
            return '1'
        x, y = map(int, t[1].split(','))
        return '1' if in_field(x, y) and C.is_point_on_curve((x, y)) else '0'
    if c == 'neg':
        return tok(-pt(t[1])) if t[1] != 'inf' else 'inf'
    if c == 'add':
        return tok(pt(t[1]) + pt(t[2]))
    if c == 'double':
        p = pt(t[1])
        return tok(p + p)
    if c == 'mul':
        p = pt(t[2])
        return 'inf' if p._is_identity() else tok(int(t[1]) * p)
    if c == 'mulG':
        return tok(int(t[1]) * C.G)
    if c == 'decompress':
        x = int(t[2])
        if not 0 <= x < 1 << 256:
            return 'ERR'
        p = decode_point(bytes([3 if t[1] == '1' else 2]) + x.to_bytes(32, 'big'))
        return 'ERR' if p is None else '%d,%d' % (p.x, p.y)
    if c == 'compress':
        if t[1] == 'inf':
            return 'ERR'
        p = pt(t[1])
        return '%d %d' % (p.y & 1, p.x)
    if c == 'serc':
        return '00' if t[1] == 'inf' else hx(SEC1Encoder.encode_public_key(pt(t[1]), compressed=True))
    if c == 'seru':
        return '00' if t[1] == 'inf' else hx(SEC1Encoder.encode_public_key(pt(t[1]), compressed=False))
    if c == 'parse':
        p = decode_point(unhex(t[1]))
        return 'ERR' if p is None else '%d,%d' % (p.x, p.y)
    if c == 'sign':
        d, z, k = int(t[1]), int(t[2]), int(t[3])
        r, s = _ecdsa.sign('%064x' % z, str(d), str(k), *CURVE_ARGS)
        r, s = int(r), int(s)
        return 'ERR' if r == 0 or s == 0 else '%d %d' % (r, s)
    if c == 'lows':
        s = int(t[1])
        return str(N - s if 2 * s > N else s)
    if c == 'verify':
        z, r, s = int(t[1]), int(t[2]), int(t[3])
        if t[4] == 'inf' or not (1 <= r < N and 1 <= s < N):
            return '0'
        ok = fe_ecdsa.verify((r, s), z.to_bytes(32, 'big'), pt(t[4]), curve=C, hashfunc=hashlib.sha256, prehashed=True)
        return '1' if ok else '0'
    if c == 'bits2int':
        b = unhex(t[1])
        return str(RFC6979(b, 1, N, hashlib.sha256, prehashed=True)._bits2int(b))
    if c == 'nonce':
        return str(RFC6979(unhex(t[2]), int(t[1]), N, hashlib.sha256, prehashed=True).gen_nonce())
    if c == 'signdet':
        d, h1 = int(t[1]), unhex(t[2])
        r, s = fe_ecdsa.sign(h1, d, curve=C, hashfunc=hashlib.sha256, prehashed=True)
        return '%d %d' % (r, s)
    if c == 'consts':
        return '%d %d %d,%d' % (C.p, C.q, C.gx, C.gy)
    return 'BADREQ'


def main():
    out = []
    for line in sys.stdin:
        t = line.strip().split(' ')
        try:
            out.append(answer(t))
        except Exception as e:                               # noqa: any failure is a token, never a crash
            out.append('CRASH ' + type(e).__name__)
    sys.stdout.write('\n'.join(out) + ('\n' if out else ''))


if __name__ == '__main__':
    main()
