"""harness/spec_networks.py — FROZEN specification copy of the network parameters (shared by C04, C05, C12 ...).

This file NEVER reads /repo.  It is the Python twin of coq/Model/SpecNetworks.v (which is rendered from the tables
below by `render_coq()`; `selftest()` checks that the committed .v file is byte-identical to the rendering, so the two
frozen copies cannot drift apart).  It was written by hand from the chain parameters of the reference clients:

  bitcoin / testnet (3) / testnet4 / signet / regtest
        Bitcoin Core  src/kernel/chainparams.cpp  (CMainParams, CTestNetParams, CTestNet4Params, SigNetParams,
        CRegTestParams): base58Prefixes[PUBKEY_ADDRESS, SCRIPT_ADDRESS, SECRET_KEY, EXT_PUBLIC_KEY, EXT_SECRET_KEY],
        bech32_hrp; BIP173 / BIP350 for the human-readable parts bc / tb / bcrt
  litecoin / litecoin_legacy / litecoin_testnet
        Litecoin Core src/chainparams.cpp: PUBKEY_ADDRESS 48, SCRIPT_ADDRESS 5 (legacy), SCRIPT_ADDRESS2 50,
        SECRET_KEY 176, bech32_hrp "ltc"; testnet 111 / 196 / SCRIPT_ADDRESS2 58 / 239 / "tltc"
  dogecoin / dogecoin_testnet
        Dogecoin Core src/chainparams.cpp: PUBKEY_ADDRESS 30, SCRIPT_ADDRESS 22, SECRET_KEY 158,
        EXT_PUBLIC_KEY 02facafd (dgub), EXT_SECRET_KEY 02fac398 (dgpv); testnet 113 / 196 / 241 / tpub / tprv
  extended-key version bytes of the witness-type / multisig rows (ypub Ypub zpub Zpub upub Upub vpub Vpub, Ltub Ltpv
        Mtub Mtpv ttub ttpv): SLIP-0132
  bip44_cointype: SLIP-0044 (bitcoin 0, every testnet 1, litecoin 2, dogecoin 3)
  denominator: 1 coin = 10^8 base units in all four clients (COIN = 100000000)

Fields marked 'policy' are choices of the library, not protocol constants: they are frozen at the value the library
had when this file was written so that a later edit is noticed, but no reference client prescribes them:
  dust_amount, fee_min, fee_max, fee_default, priority, currency_code, the whole `bitcoinlib_test` network,
  prefix_bech32 of dogecoin / dogecoin_testnet (Dogecoin has no segregated witness), the reuse of Mtub/Mtpv and
  ttub/ttpv for Litecoin native-segwit and multisig rows (SLIP-0132 registers no separate version bytes).

Two tables are exported:
  FROZEN     what the library is pinned to (= coq `spec_networks`; Proofs/SpecNetworksGlue.v proves that the table
             regenerated from /repo equals it).  Equal to REFERENCE except for the documented DEVIATIONS.
  REFERENCE  the reference clients' values (= coq `ref_networks`).  Property-level oracles use THIS table; the
             documented deviations are known-finding classes of the properties that observe them.

Row format of prefixes_wif: (version bytes hex, base58 label, 'public' | 'private', multisig, witness_type, script_type)
as in networks.json.  Dict order = file order of networks.json (the order matters: network_by_value sorts by priority
with a stable sort, ties are resolved by table order).
"""
import copy, os
from collections import OrderedDict

# ------------------------------------------------------------------ extended-key rows (hand-written, see sources above)


def _legacy(pub, publ, prv, prvl):
    return [(pub, publ, 'public', False, 'legacy', 'p2pkh'), (pub, publ, 'public', True, 'legacy', 'p2sh'),
            (prv, prvl, 'private', False, 'legacy', 'p2pkh'), (prv, prvl, 'private', True, 'legacy', 'p2sh')]


def _wit(wt, st_single, st_multi, pub_s, pub_m, prv_s, prv_m):
    return [pub_s + ('public', False, wt, st_single), pub_m + ('public', True, wt, st_multi),
            prv_s + ('private', False, wt, st_single), prv_m + ('private', True, wt, st_multi)]


# Bitcoin mainnet: BIP32 xpub/xprv (Bitcoin Core CMainParams), SLIP-0132 y/Y/z/Z
XKEYS_BITCOIN = (
    _legacy('0488B21E', 'xpub', '0488ADE4', 'xprv')
    + _wit('p2sh-segwit', 'p2sh_p2wpkh', 'p2sh_p2wsh', ('049D7CB2', 'ypub'), ('0295B43F', 'Ypub'), ('049D7878', 'yprv'), ('0295B005', 'Yprv'))
    + _wit('segwit', 'p2wpkh', 'p2wsh', ('04B24746', 'zpub'), ('02AA7ED3', 'Zpub'), ('04B2430C', 'zprv'), ('02AA7A99', 'Zprv')))

# Bitcoin testnet3 / testnet4 / signet / regtest: tpub/tprv (Bitcoin Core), SLIP-0132 u/U/v/V
XKEYS_TESTNET = (
    _legacy('043587CF', 'tpub', '04358394', 'tprv')
    + _wit('p2sh-segwit', 'p2sh_p2wpkh', 'p2sh_p2wsh', ('044A5262', 'upub'), ('024289EF', 'Upub'), ('044A4E28', 'uprv'), ('024285B5', 'Uprv'))
    + _wit('segwit', 'p2wpkh', 'p2wsh', ('045F1CF6', 'vpub'), ('02575483', 'Vpub'), ('045F18BC', 'vprv'), ('02575048', 'Vprv')))

# Litecoin: SLIP-0132 Ltub/Ltpv (m/44'/2') and Mtub/Mtpv (m/49'/2'); segwit + multisig rows reuse Mtub/Mtpv (policy).
# NOTE: Litecoin Core's own chainparams keep Bitcoin's 0488B21E / 0488ADE4; the SLIP-0132 registration is what
# wallets (and this library) use.  Not a certain reference: frozen at the library's (SLIP-0132) value.
XKEYS_LITECOIN = (
    _legacy('019DA462', 'Ltub', '019D9CFE', 'Ltpv')
    + _wit('p2sh-segwit', 'p2sh_p2wpkh', 'p2sh_p2wsh', ('01B26EF6', 'Mtub'), ('01B26EF6', 'Mtub'), ('01B26792', 'Mtpv'), ('01B26792', 'Mtpv'))
    + _wit('segwit', 'p2wpkh', 'p2wsh', ('01B26EF6', 'Mtub'), ('01B26EF6', 'Mtub'), ('01B26792', 'Mtpv'), ('01B26792', 'Mtpv')))

# Litecoin testnet: SLIP-0132 ttub/ttpv for every row (Litecoin Core's chainparams: tpub/tprv); policy as above
XKEYS_LITECOIN_TESTNET = (
    _legacy('0436F6E1', 'ttub', '0436EF7D', 'ttpv')
    + _wit('p2sh-segwit', 'p2sh_p2wpkh', 'p2sh_p2wsh', ('0436F6E1', 'ttub'), ('0436F6E1', 'ttub'), ('0436EF7D', 'ttpv'), ('0436EF7D', 'ttpv'))
    + _wit('segwit', 'p2wpkh', 'p2wsh', ('0436F6E1', 'ttub'), ('0436F6E1', 'ttub'), ('0436EF7D', 'ttpv'), ('0436EF7D', 'ttpv')))

# Dogecoin Core: dgub / dgpv.  The library uses Bitcoin's xpub / xprv instead (DEVIATION, see below).
XKEYS_DOGECOIN_CORE = _legacy('02FACAFD', 'dgub', '02FAC398', 'dgpv')
XKEYS_DOGECOIN_LIB = _legacy('0488B21E', 'xpub', '0488ADE4', 'xprv')
# Dogecoin testnet: tpub / tprv (Dogecoin Core CTestNetParams)
XKEYS_DOGECOIN_TESTNET = _legacy('043587CF', 'tpub', '04358394', 'tprv')

# bitcoinlib_test: invented by the library (policy)
XKEYS_BITCOINLIB_TEST = (
    _legacy('2FFFACCC', 'BC11', '2FFFADDD', 'BC12')
    + _wit('p2sh-segwit', 'p2sh_p2wpkh', 'p2sh_p2wsh', ('2FFFAEEE', 'BC13'), ('2FFFB100', 'BC14'), ('2FFFB300', 'BC15'), ('2FFFB500', 'BC16'))
    + _wit('segwit', 'p2wpkh', 'p2wsh', ('2FFFB666', 'BC17'), ('2FFFB800', 'BC18'), ('2FFFB900', 'BC19'), ('2FFFBA00', 'BC1A')))


def _net(pa, ps, hrp, wif, xkeys, coin, dust, fee_default, fee_min, fee_max, priority, code, denominator=1e-8):
    return OrderedDict(prefix_address=pa, prefix_address_p2sh=ps, prefix_bech32=hrp, prefix_wif=wif,
                       prefixes_wif=list(xkeys), bip44_cointype=coin, denominator=denominator, dust_amount=dust,
                       fee_default=fee_default, fee_min=fee_min, fee_max=fee_max, priority=priority, currency_code=code)


# ------------------------------------------------------------------ REFERENCE: the reference clients' values
#                  p2pkh p2sh  hrp      wif   ext. keys               SLIP44   dust  fee_default fee_min  fee_max      prio code
#                  ----------- protocol --------------------------------------  ---------------- policy ----------------------
REFERENCE = OrderedDict([
    ('bitcoinlib_test',  _net('90', '95', 'blt',   '99', XKEYS_BITCOINLIB_TEST,  9999999, 1000, 10000,     1000,    1000000,     2,  'TST')),    # all policy
    ('bitcoin',          _net('00', '05', 'bc',    '80', XKEYS_BITCOIN,          0,       1000, None,      1000,    1000000,     12, 'BTC')),
    ('testnet',          _net('6F', 'C4', 'tb',    'EF', XKEYS_TESTNET,          1,       1000, 10000,     1000,    2000000,     8,  'tBTC')),
    ('testnet4',         _net('6F', 'C4', 'tb',    'EF', XKEYS_TESTNET,          1,       1000, 10000,     1000,    2000000,     8,  'tBTC')),
    ('signet',           _net('6F', 'C4', 'tb',    'EF', XKEYS_TESTNET,          1,       1000, 10000,     1000,    2000000,     8,  'sBTC')),
    # Bitcoin Core CRegTestParams: PUBKEY_ADDRESS 111, SCRIPT_ADDRESS 196, SECRET_KEY 239, tpub/tprv, hrp bcrt; SLIP-0044 coin type 1
    ('regtest',          _net('6F', 'C4', 'bcrt',  'EF', XKEYS_TESTNET,          1,       1000, None,      1000,    1000000,     0,  'rBTC')),
    ('litecoin',         _net('30', '32', 'ltc',   'B0', XKEYS_LITECOIN,         2,       1000, 50000,     1000,    1000000,     10, 'LTC')),
    # Litecoin's first P2SH version byte (SCRIPT_ADDRESS = 5, shared with Bitcoin; still accepted by Litecoin Core)
    ('litecoin_legacy',  _net('30', '05', 'ltc',   'B0', XKEYS_LITECOIN,         2,       1000, 50000,     1000,    1000000,     8,  'LTC')),
    ('litecoin_testnet', _net('6F', '3A', 'tltc',  'EF', XKEYS_LITECOIN_TESTNET, 1,       1000, 50000,     1000,    1000000,     6,  'XLT')),
    ('dogecoin',         _net('1E', '16', 'doge',  '9E', XKEYS_DOGECOIN_CORE,    3,       1000, 200000000, 1000000, 10000000000, 10, 'DOGE')),
    ('dogecoin_testnet', _net('71', 'C4', 'tdoge', 'F1', XKEYS_DOGECOIN_TESTNET, 1,       1000, 100000000, 1000000, 10000000000, 6,  'tDOGE')),
])

# ------------------------------------------------------------------ DEVIATIONS: where the library (as of the freeze)
# disagrees with the reference client.  (network, field, value the library is pinned to, source of the reference value, note)
DEVIATIONS = [
    ('regtest', 'prefix_address', '00', 'Bitcoin Core CRegTestParams base58Prefixes[PUBKEY_ADDRESS] = 111 (0x6f)',
     'the regtest row reuses the MAINNET version bytes; docstring examples in keys.py pin it ("networks": ["bitcoin", "regtest"])'),
    ('regtest', 'prefix_address_p2sh', '05', 'Bitcoin Core CRegTestParams base58Prefixes[SCRIPT_ADDRESS] = 196 (0xc4)', 'as above'),
    ('regtest', 'prefix_wif', '80', 'Bitcoin Core CRegTestParams base58Prefixes[SECRET_KEY] = 239 (0xef)', 'as above'),
    ('regtest', 'prefixes_wif', XKEYS_BITCOIN, 'Bitcoin Core CRegTestParams EXT_PUBLIC_KEY 043587CF / EXT_SECRET_KEY 04358394 (tpub / tprv)',
     'xpub/xprv (and y/Y/z/Z instead of u/U/v/V) on a test chain'),
    ('regtest', 'bip44_cointype', 0, 'SLIP-0044: coin type 1 = "Testnet (all coins)"', 'regtest derives on the mainnet path m/44h/0h'),
    ('dogecoin', 'prefixes_wif', XKEYS_DOGECOIN_LIB, 'Dogecoin Core CMainParams EXT_PUBLIC_KEY 02facafd (dgub) / EXT_SECRET_KEY 02fac398 (dgpv)',
     'Dogecoin extended keys are serialized with Bitcoin\'s xpub / xprv version bytes'),
]


def _apply(ref, devs):
    out = copy.deepcopy(ref)
    for net, field, value, _src, _note in devs:
        out[net][field] = list(value) if isinstance(value, (list, tuple)) else value
    return out


FROZEN = _apply(REFERENCE, DEVIATIONS)
DEVIATING = sorted({(d[0], d[1]) for d in DEVIATIONS})

POLICY_FIELDS = ('dust_amount', 'fee_default', 'fee_min', 'fee_max', 'priority', 'currency_code')
PROTOCOL_FIELDS = ('prefix_address', 'prefix_address_p2sh', 'prefix_bech32', 'prefix_wif', 'prefixes_wif', 'bip44_cointype',
                   'denominator')
FIELDS = PROTOCOL_FIELDS + POLICY_FIELDS
NETWORK_NAMES = list(REFERENCE.keys())


# ------------------------------------------------------------------ accessors for oracles
def address_prefixes(net, table=None):
    """(P2PKH version byte(s), P2SH version byte(s), bech32 human-readable part) of a network"""
    r = (table or REFERENCE)[net]
    return bytes.fromhex(r['prefix_address']), bytes.fromhex(r['prefix_address_p2sh']), r['prefix_bech32']


def wif_prefix(net, table=None):
    return bytes.fromhex((table or REFERENCE)[net]['prefix_wif'])


def xkey_rows(net, table=None):
    """rows of prefixes_wif as dicts"""
    return [dict(prefix=bytes.fromhex(r[0]), label=r[1], private=r[2] == 'private', multisig=bool(r[3]), witness_type=r[4],
                 script_type=r[5]) for r in (table or REFERENCE)[net]['prefixes_wif']]


def deviates(net, field=None):
    return any(n == net and (field is None or f == field) for n, f in DEVIATING)


def diff_repo(repo):
    """DIAGNOSTIC ONLY (never used by an oracle): [(network, field, value in repo, frozen value)] for networks.json of a tree"""
    import json
    d = json.load(open(os.path.join(repo, 'bitcoinlib', 'data', 'networks.json'), encoding='utf8'))
    out = []
    if list(d.keys()) != NETWORK_NAMES:
        out.append(('*', 'network names / order', list(d.keys()), NETWORK_NAMES))
    for net in NETWORK_NAMES:
        if net not in d:
            continue
        for f in FIELDS:
            got = d[net].get(f)
            want = FROZEN[net][f]
            if f == 'prefixes_wif':
                got = [tuple(r) for r in got]
                want = [tuple(r) for r in want]
            if got != want:
                out.append((net, f, got, want))
    return out


# ------------------------------------------------------------------ the Coq twin
def _bytes_lit(hexs):
    return '[' + '; '.join('x%02x' % b for b in bytes.fromhex(hexs)) + ']'


def _str_lit(s):
    s.encode('ascii')
    return '"' + s.replace('"', '""') + '"%string'


def _row_lit(r):
    return ('{| sw_prefix := %s; sw_label := %s; sw_private := %s; sw_multisig := %s; sw_witness_type := %s; sw_script_type := %s |}'
            % (_bytes_lit(r[0]), _str_lit(r[1]), 'true' if r[2] == 'private' else 'false', 'true' if r[3] else 'false',
               _str_lit(r[4]), _str_lit(r[5])))


def _net_def(ident, name, r, comment):
    fd = r['fee_default']
    return ('%sDefinition %s : spec_network := {|\n'
            '  sn_name := %s;\n'
            '  sn_prefix_address := %s;\n'
            '  sn_prefix_address_p2sh := %s;\n'
            '  sn_prefix_bech32 := %s;\n'
            '  sn_prefix_wif := %s;\n'
            '  sn_prefixes_wif :=\n    [%s];\n'
            '  sn_bip44_cointype := %d;\n'
            '  sn_denominator_hex := %s;\n'
            '  sn_dust_amount := %d;          (* policy *)\n'
            '  sn_fee_min := %d;          (* policy *)\n'
            '  sn_fee_max := %d;          (* policy *)\n'
            '  sn_fee_default := %s;          (* policy *)\n'
            '  sn_priority := %d;          (* policy *)\n'
            '  sn_currency_code := %s          (* policy *) |}.\n'
            % (comment, ident, _str_lit(name), _bytes_lit(r['prefix_address']), _bytes_lit(r['prefix_address_p2sh']),
               '[' + '; '.join('x%02x' % b for b in r['prefix_bech32'].encode('ascii')) + ']', _bytes_lit(r['prefix_wif']),
               ';\n     '.join(_row_lit(x) for x in r['prefixes_wif']), r['bip44_cointype'],
               _str_lit(float(r['denominator']).hex()), r['dust_amount'], r['fee_min'], r['fee_max'],
               'None' if fd is None else 'Some %d' % fd, r['priority'], _str_lit(r['currency_code'])))


COQ_HEADER = '''(* Model/SpecNetworks.v — FROZEN specification copy of the network parameters.  Definitions only.

   NOT regenerated from /repo.  This file is the Gallina twin of harness/spec_networks.py (rendered from the tables there
   by `render_coq`; `python3 harness/spec_networks.py --selftest` and every ./check C04 compare the two byte for byte).
   The values were written by hand from the chain parameters of the reference clients:
     Bitcoin Core kernel/chainparams.cpp (bitcoin, testnet, testnet4, signet, regtest), Litecoin Core, Dogecoin Core
     chainparams.cpp; SLIP-0132 (extended-key version bytes of the witness-type / multisig rows, Ltub/Mtub/ttub);
     SLIP-0044 (coin types); BIP173 / BIP350 (human-readable parts).
   Fields commented "policy" are choices of the library (no reference client prescribes them); they are frozen at the
   value the library had at the time of writing so that an edit is noticed.  The network bitcoinlib_test, the bech32
   prefixes of the two Dogecoin rows and the reuse of Mtub/Mtpv/ttub/ttpv for Litecoin segwit/multisig rows are policy too.

   spec_networks  what the library is pinned to; Proofs/SpecNetworksGlue.v proves (vm_compute) that the table regenerated
                  from /repo (Gen/GenNetworks.v), projected to these fields, equals it.
   ref_networks   the reference clients' values.  Equal to spec_networks except for the rows listed in
                  [deviating_networks] (regtest: mainnet version bytes / xpub / coin type 0 instead of Bitcoin Core's
                  6f / c4 / ef / tpub / 1;  dogecoin: xpub / xprv instead of Dogecoin Core's dgub / dgpv).

   To be imported by other properties (C05, C12 ...): the record types do not depend on Gen/GenNetworks.v. *)
From Coq Require Import ZArith List Bool String.
From Coq.Strings Require Import Byte.
Import ListNotations.
Open Scope Z_scope.

(* one row of prefixes_wif *)
Record spec_wif_row := {
  sw_prefix : list byte;          (* 4 version bytes of the serialized extended key *)
  sw_label : string;              (* the base58 text the version bytes produce: xpub, zprv ... *)
  sw_private : bool;
  sw_multisig : bool;
  sw_witness_type : string;       (* legacy | p2sh-segwit | segwit *)
  sw_script_type : string         (* p2pkh | p2sh | p2sh_p2wpkh | p2sh_p2wsh | p2wpkh | p2wsh *)
}.

Record spec_network := {
  sn_name : string;
  sn_prefix_address : list byte;        (* base58 version byte of P2PKH addresses *)
  sn_prefix_address_p2sh : list byte;   (* base58 version byte of P2SH addresses *)
  sn_prefix_bech32 : list byte;         (* ASCII of the bech32 human-readable part *)
  sn_prefix_wif : list byte;            (* base58 version byte of WIF private keys *)
  sn_prefixes_wif : list spec_wif_row;
  sn_bip44_cointype : Z;                (* SLIP-0044 *)
  sn_denominator_hex : string;          (* float.hex() of the binary64 nearest to 10^-8 *)
  sn_dust_amount : Z;
  sn_fee_min : Z;
  sn_fee_max : Z;
  sn_fee_default : option Z;
  sn_priority : Z;
  sn_currency_code : string
}.
'''

COQ_FOOTER = '''
(* ---------------------------------------------------------------- lookup *)

Fixpoint spec_find (name : string) (l : list spec_network) : option spec_network :=
  match l with
  | [] => None
  | n :: r => if String.eqb (sn_name n) name then Some n else spec_find name r
  end.

Definition spec_network_by_name (name : string) : option spec_network := spec_find name spec_networks.
Definition ref_network_by_name (name : string) : option spec_network := spec_find name ref_networks.

(* the address-relevant part of a row *)
Definition sn_address_fields (n : spec_network) : string * list byte * list byte * list byte :=
  (sn_name n, sn_prefix_address n, sn_prefix_address_p2sh n, sn_prefix_bech32 n).

Definition sn_is_deviating (n : spec_network) : bool := existsb (String.eqb (sn_name n)) deviating_networks.
'''


def render_coq():
    out = [COQ_HEADER]
    out.append('(* ---------------------------------------------------------------- the frozen table (what the library is pinned to) *)\n')
    for name in NETWORK_NAMES:
        devs = [d for d in DEVIATIONS if d[0] == name]
        c = ''
        if devs:
            c = '(* DEVIATES from the reference client in: %s (see ref_%s) *)\n' % (', '.join(d[1] for d in devs), name)
        out.append(_net_def('sn_' + name, name, FROZEN[name], c))
    out.append('Definition spec_networks : list spec_network :=\n  [%s].\n' % '; '.join('sn_' + n for n in NETWORK_NAMES))
    out.append('(* ---------------------------------------------------------------- reference-client values of the deviating rows *)\n')
    dev_nets = [n for n in NETWORK_NAMES if deviates(n)]
    for name in dev_nets:
        srcs = '\n'.join('   %s: %s' % (d[1], d[3]) for d in DEVIATIONS if d[0] == name)
        out.append(_net_def('ref_' + name, name, REFERENCE[name], '(* reference client:\n%s *)\n' % srcs))
    out.append('Definition ref_networks : list spec_network :=\n  [%s].\n'
               % '; '.join(('ref_' if deviates(n) else 'sn_') + n for n in NETWORK_NAMES))
    out.append('Definition deviating_networks : list string := [%s].\n' % '; '.join(_str_lit(n) for n in dev_nets))
    out.append(COQ_FOOTER)
    return '\n'.join(out)


COQ_PATH = os.path.join(os.path.dirname(os.path.dirname(os.path.abspath(__file__))), 'coq', 'Model', 'SpecNetworks.v')


def selftest(path=COQ_PATH):
    """-> None when coq/Model/SpecNetworks.v is the rendering of the tables above, else a description of the difference"""
    want = render_coq()
    try:
        got = open(path, encoding='utf8').read()
    except OSError as e:
        return 'cannot read %s: %s' % (path, e)
    if got == want:
        # internal consistency of the Python side
        for net in NETWORK_NAMES:
            for f in FIELDS:
                same = FROZEN[net][f] == REFERENCE[net][f]
                if same == ((net, f) in DEVIATING):
                    return 'DEVIATIONS and tables are inconsistent at %s.%s' % (net, f)
        return None
    gl, wl = got.split('\n'), want.split('\n')
    for i in range(max(len(gl), len(wl))):
        a = gl[i] if i < len(gl) else '<end of file>'
        b = wl[i] if i < len(wl) else '<end of file>'
        if a != b:
            return '%s line %d differs from harness/spec_networks.py:\n  file:   %s\n  tables: %s' % (path, i + 1, a[:160], b[:160])
    return 'files differ'


if __name__ == '__main__':
    import sys
    if '--render' in sys.argv:
        sys.stdout.write(render_coq())
    elif '--write' in sys.argv:
        open(COQ_PATH, 'w', encoding='utf8').write(render_coq())
        print('wrote', COQ_PATH)
    elif '--diff-repo' in sys.argv:
        for d in diff_repo(sys.argv[sys.argv.index('--diff-repo') + 1]):
            print(d)
    else:
        r = selftest()
        print('spec_networks selftest:', 'OK' if r is None else r)
        sys.exit(0 if r is None else 1)
