"""config/opcodes.py, config/secp256k1.py, config/config.py, encoding.code_strings -> GenConsts.v.
Values are read by importing the modules from the working tree (PYTHONPATH = repo, fresh BCL_DATA_DIR)."""
import importlib, os, sys, ast
from coqfmt import *


def generate(repo):
    sys.path.insert(0, repo)
    import bitcoinlib.config.opcodes as opc
    import bitcoinlib.config.secp256k1 as curve
    import bitcoinlib.config.config as cfg
    import bitcoinlib.encoding as enc
    out = [HEADER]
    # opcodes
    rows = ['(%d, %s)' % (n, string_lit(name)) for n, name in sorted(opc.opcodenames.items())]
    out.append('Definition opcode_names : list (Z * string) := %s.\n' % list_lit(rows))
    # which opcodes Script.evaluate can dispatch: names with a Stack.op_* method (from the AST of scripts.py)
    tree = ast.parse(open(os.path.join(repo, 'bitcoinlib', 'scripts.py'), encoding='utf8').read())
    methods = []
    for node in tree.body:
        if isinstance(node, ast.ClassDef) and node.name == 'Stack':
            methods = [f.name for f in node.body if isinstance(f, ast.FunctionDef) and f.name.startswith('op_')]
    impl = sorted(n for n, name in opc.opcodenames.items() if name.lower() in methods)
    out.append('Definition stack_methods : list string := %s.\n' % list_lit(string_lit(m) for m in methods))
    out.append('Definition dispatchable_opcodes : list Z := %s.\n' % list_lit(z_lit(n) for n in impl))
    # curve
    for k in ('secp256k1_p', 'secp256k1_n', 'secp256k1_a', 'secp256k1_b', 'secp256k1_Gx', 'secp256k1_Gy'):
        out.append('Definition %s : Z := %s.' % (k, z_lit(getattr(curve, k))))
    # config constants
    for k in ('SIGHASH_ALL', 'SIGHASH_NONE', 'SIGHASH_SINGLE', 'SIGHASH_ANYONECANPAY', 'SEQUENCE_LOCKTIME_DISABLE_FLAG',
              'SEQUENCE_LOCKTIME_TYPE_FLAG', 'SEQUENCE_LOCKTIME_GRANULARITY', 'SEQUENCE_LOCKTIME_MASK',
              'SEQUENCE_ENABLE_LOCKTIME', 'SEQUENCE_REPLACE_BY_FEE', 'BECH32M_CONST', 'SERVICE_MAX_ERRORS',
              'MAX_TRANSACTIONS', 'BUMPFEE_DEFAULT_MULTIPLIER', 'DEFAULT_WITNESS_TYPE'):
        if hasattr(cfg, k):
            v = getattr(cfg, k)
            if isinstance(v, bool):
                out.append('Definition cfg_%s : bool := %s.' % (k, bool_lit(v)))
            elif isinstance(v, int):
                out.append('Definition cfg_%s : Z := %s.' % (k, z_lit(v)))
            elif isinstance(v, str):
                out.append('Definition cfg_%s : string := %s.' % (k, string_lit(v)))
    # SCRIPT_TYPES templates
    rows = []
    for name, (lock, tmpl, lens) in cfg.SCRIPT_TYPES.items():
        items = []
        for t in tmpl:
            items.append(('inl %s' % z_lit(t)) if isinstance(t, int) else ('inr %s' % string_lit(t)))
        rows.append('(%s, (%s, %s, %s))' % (string_lit(name), string_lit(lock), list_lit(items), list_lit(z_lit(x) for x in lens)))
    out.append('\nDefinition script_types : list (string * (string * list (Z + string) * list Z)) := %s.\n' % list_lit(rows))
    # alphabets
    out.append('Definition alphabet_base58 : list byte := %s.' % bytes_lit(enc.code_strings[58]))
    out.append('Definition alphabet_bech32 : list byte := %s.' % bytes_lit(enc.code_strings['bech32']))
    # denominators
    rows = ['(%s, %s)' % (string_lit(float(k).hex()), string_lit(v.encode('unicode_escape').decode('ascii')))
            for k, v in cfg.NETWORK_DENOMINATORS.items()]
    out.append('Definition network_denominators : list (string * string) := %s.\n' % list_lit(rows))
    return {'GenConsts.v': '\n'.join(out) + '\n'}
