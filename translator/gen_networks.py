"""networks.json -> GenNetworks.v : one record per network, in file order."""
import json, os
from coqfmt import *


def generate(repo):
    d = json.load(open(os.path.join(repo, 'bitcoinlib', 'data', 'networks.json'), encoding='utf8'))
    out = [HEADER, '''
(* one row of prefixes_wif: (4-byte prefix, is_private, multisig, witness_type, script_type) *)
Record wif_row := { wr_prefix : list byte; wr_private : bool; wr_multisig : bool;
                    wr_witness_type : string; wr_script_type : string; wr_hrp : string }.

Record network := {
  nw_name : string;
  nw_prefix_address : list byte;
  nw_prefix_address_p2sh : list byte;
  nw_prefix_bech32 : list byte;      (* ASCII of the human-readable part *)
  nw_prefix_wif : list byte;
  nw_prefixes_wif : list wif_row;
  nw_bip44_cointype : Z;
  nw_dust_amount : Z;
  nw_fee_min : Z;
  nw_fee_max : Z;
  nw_fee_default : option Z;
  nw_priority : Z;
  nw_denominator_hex : string;       (* float.hex() of the binary64 the JSON parser produces *)
  nw_currency_code : string
}.
''']
    names = []
    for name, nw in d.items():
        rows = []
        for r in nw['prefixes_wif']:
            rows.append('{| wr_prefix := %s; wr_private := %s; wr_multisig := %s; wr_witness_type := %s; '
                        'wr_script_type := %s; wr_hrp := %s |}' % (
                            bytes_lit(bytes.fromhex(r[0])), bool_lit(r[2] == 'private'), bool_lit(bool(r[3])),
                            string_lit(r[4]), string_lit(r[5]), string_lit(r[1])))
        ident = 'nw_' + name
        names.append(ident)
        fd = nw.get('fee_default')
        out.append('Definition %s : network := {|\n  nw_name := %s;\n  nw_prefix_address := %s;\n  nw_prefix_address_p2sh := %s;\n'
                   '  nw_prefix_bech32 := %s;\n  nw_prefix_wif := %s;\n  nw_prefixes_wif := %s;\n  nw_bip44_cointype := %s;\n'
                   '  nw_dust_amount := %s;\n  nw_fee_min := %s;\n  nw_fee_max := %s;\n  nw_fee_default := %s;\n  nw_priority := %s;\n'
                   '  nw_denominator_hex := %s;\n  nw_currency_code := %s |}.\n' % (
                       ident, string_lit(name), bytes_lit(bytes.fromhex(nw['prefix_address'])),
                       bytes_lit(bytes.fromhex(nw['prefix_address_p2sh'])), ascii_bytes(nw['prefix_bech32']),
                       bytes_lit(bytes.fromhex(nw['prefix_wif'])), list_lit(rows), z_lit(int(nw['bip44_cointype'])),
                       z_lit(int(nw['dust_amount'])), z_lit(int(nw['fee_min'])), z_lit(int(nw['fee_max'])),
                       ('Some %s' % z_lit(int(fd))) if fd is not None else 'None', z_lit(int(nw['priority'])),
                       string_lit(float(nw['denominator']).hex()), string_lit(nw['currency_code'])))
    out.append('Definition all_networks : list network := %s.\n' % list_lit(names))
    return {'GenNetworks.v': '\n'.join(out)}
