"""config/config.py -> GenWalletCfg.v : WALLET_KEY_STRUCTURES and the KEY_PATH_* templates, exactly as the
source has them (strings, in file order).  Read by importing the module from the working tree, so an edit of a
purpose number, a path template, a witness type or an encoding changes the inputs of the C09 proofs."""
import sys
from coqfmt import *


def _opt_z(v):
    return 'None' if v is None else 'Some %s' % z_lit(int(v))


def generate(repo):
    sys.path.insert(0, repo)
    import bitcoinlib.config.config as cfg
    out = [HEADER, '''
(* one entry of WALLET_KEY_STRUCTURES *)
Record key_structure := {
  ks_purpose : option Z;
  ks_script_type : string;
  ks_witness_type : string;
  ks_multisig : bool;
  ks_encoding : string;
  ks_key_path : list string
}.
''']
    templates = {}
    for name in sorted(dir(cfg)):
        if name.startswith('KEY_PATH_'):
            v = getattr(cfg, name)
            if not (isinstance(v, list) and all(isinstance(x, str) for x in v)):
                raise ValueError('%s is not a list of strings' % name)
            templates[name] = v
            out.append('Definition %s : list string := %s.' % (name, list_lit(string_lit(x) for x in v)))
    out.append('')
    rows = []
    for ks in cfg.WALLET_KEY_STRUCTURES:
        if set(ks) != {'purpose', 'script_type', 'witness_type', 'multisig', 'encoding', 'description', 'key_path'}:
            raise ValueError('unexpected fields in WALLET_KEY_STRUCTURES entry: %r' % sorted(ks))
        if not isinstance(ks['multisig'], bool):
            raise ValueError('multisig is not a bool')
        kp = ks['key_path']
        # refer to the named template when the entry uses one (same object or equal list), else inline it
        ref = None
        for n, v in templates.items():
            if kp is v:
                ref = n
        rows.append('{| ks_purpose := %s; ks_script_type := %s; ks_witness_type := %s; ks_multisig := %s; '
                    'ks_encoding := %s;\n     ks_key_path := %s |}' % (
                        _opt_z(ks['purpose']), string_lit(ks['script_type']), string_lit(ks['witness_type']),
                        bool_lit(ks['multisig']), string_lit(ks['encoding']),
                        ref if ref else list_lit(string_lit(x) for x in kp)))
    out.append('Definition WALLET_KEY_STRUCTURES : list key_structure := [\n  %s\n].\n' % ';\n  '.join(rows))
    out.append('Definition cfg_wallet_DEFAULT_WITNESS_TYPE : string := %s.' % string_lit(cfg.DEFAULT_WITNESS_TYPE))
    out.append('Definition cfg_wallet_DEFAULT_NETWORK : string := %s.' % string_lit(cfg.DEFAULT_NETWORK))
    return {'GenWalletCfg.v': '\n'.join(out) + '\n'}
