"""config/config.py -> GenWalletCfg.v : WALLET_KEY_STRUCTURES and the KEY_PATH_* templates, exactly as the
source has them (strings, in file order).  Read by importing the module from the working tree, so an edit of a
purpose number, a path template, a witness type or an encoding changes the inputs of the C09 proofs.

wallets.py -> the same file: the two guards that decide whether a wallet may hand out keys outside the branch of its
main key - the test in front of "cannot use multiple witness types" in Wallet.keys_for_path and the one in front of
"A master private key of depth 0 is needed" in Wallet.new_account - as Gallina boolean functions of the facts they
look at (main key present / private / of depth 0, witness type differs, multisig).  The key book model calls these
functions, and Proofs/WalletKeysTables.v proves them equal to a frozen copy: a test that loses or changes a
condition breaks that proof.  A test that mentions anything else is emitted as `false` (the guard never fires) with
the source text in a comment, which breaks the same proof."""
import ast
import os
import sys
from coqfmt import *

_ATOMS = {'self.main_key': 'has_main', 'self.main_key.is_private': 'is_private', 'self.multisig': 'multisig'}


def _bool(node):
    """a Python test over the known facts -> Gallina bool expression; None when it mentions anything else"""
    if isinstance(node, ast.BoolOp):
        parts = [_bool(v) for v in node.values]
        if any(p is None for p in parts):
            return None
        return '(' + (' && ' if isinstance(node.op, ast.And) else ' || ').join(parts) + ')'
    if isinstance(node, ast.UnaryOp) and isinstance(node.op, ast.Not):
        inner = _bool(node.operand)
        return None if inner is None else 'negb ' + inner
    if isinstance(node, ast.Compare) and len(node.ops) == 1:
        l, r, op = ast.unparse(node.left), ast.unparse(node.comparators[0]), node.ops[0]
        if {l, r} == {'self.main_key.depth', '0'}:
            if isinstance(op, ast.NotEq) or (isinstance(op, ast.Gt) and l == 'self.main_key.depth'):
                return 'negb depth0'
            if isinstance(op, ast.Eq):
                return 'depth0'
        if {l, r} == {'self.witness_type', 'witness_type'}:
            if isinstance(op, ast.NotEq):
                return 'wt_differs'
            if isinstance(op, ast.Eq):
                return 'negb wt_differs'
        if l == 'self.main_key.is_private' and r in ('False', 'True') and \
                isinstance(op, (ast.Is, ast.Eq, ast.IsNot, ast.NotEq)):
            pos = (r == 'True') == isinstance(op, (ast.Is, ast.Eq))
            return 'is_private' if pos else 'negb is_private'
        return None
    return _ATOMS.get(ast.unparse(node))


def _guards(repo):
    """[(name, Gallina expression or None, source text of the test(s))]"""
    out = []
    try:
        tree = ast.parse(open(os.path.join(repo, 'bitcoinlib', 'wallets.py')).read())
        cls = [n for n in tree.body if isinstance(n, ast.ClassDef) and n.name == 'Wallet'][0]
        fn = {n.name: n for n in cls.body if isinstance(n, ast.FunctionDef)}
    except Exception as e:      # unreadable source: both guards unknown
        fn = {}
    for name, func, needle in (('kfp_witness_guard', 'keys_for_path', 'cannot use multiple witness types'),
                               ('new_account_guard', 'new_account', 'master private key of depth 0 is needed')):
        tests = []
        if func in fn:
            for node in ast.walk(fn[func]):
                if isinstance(node, ast.If) and any(isinstance(st, ast.Raise) and needle in ast.unparse(st)
                                                    for st in node.body):
                    tests.append(node.test)
        expr = _bool(tests[0]) if len(tests) == 1 else None
        out.append((name, expr, ' ;; '.join(ast.unparse(t) for t in tests) or 'no such test found'))
    return out


def _opt_z(v):
    return 'None' if v is None else 'Some %s' % z_lit(int(v))


def generate(repo):
    sys.path.insert(0, repo)
    import bitcoinlib.config.config as cfg
    out = [HEADER, '''
(* one entry of WALLET_KEY_STRUCTURES *)
Record key_structure := {
  ks_purpose : option Z;
  ks_script_type : string;
  ks_witness_type : string;
  ks_multisig : bool;
  ks_encoding : string;
  ks_key_path : list string
}.
''']
    templates = {}
    for name in sorted(dir(cfg)):
        if name.startswith('KEY_PATH_'):
            v = getattr(cfg, name)
            if not (isinstance(v, list) and all(isinstance(x, str) for x in v)):
                raise ValueError('%s is not a list of strings' % name)
            templates[name] = v
            out.append('Definition %s : list string := %s.' % (name, list_lit(string_lit(x) for x in v)))
    out.append('')
    rows = []
    for ks in cfg.WALLET_KEY_STRUCTURES:
        if set(ks) != {'purpose', 'script_type', 'witness_type', 'multisig', 'encoding', 'description', 'key_path'}:
            raise ValueError('unexpected fields in WALLET_KEY_STRUCTURES entry: %r' % sorted(ks))
        if not isinstance(ks['multisig'], bool):
            raise ValueError('multisig is not a bool')
        kp = ks['key_path']
        # refer to the named template when the entry uses one (same object or equal list), else inline it
        ref = None
        for n, v in templates.items():
            if kp is v:
                ref = n
        rows.append('{| ks_purpose := %s; ks_script_type := %s; ks_witness_type := %s; ks_multisig := %s; '
                    'ks_encoding := %s;\n     ks_key_path := %s |}' % (
                        _opt_z(ks['purpose']), string_lit(ks['script_type']), string_lit(ks['witness_type']),
                        bool_lit(ks['multisig']), string_lit(ks['encoding']),
                        ref if ref else list_lit(string_lit(x) for x in kp)))
    out.append('Definition WALLET_KEY_STRUCTURES : list key_structure := [\n  %s\n].\n' % ';\n  '.join(rows))
    out.append('Definition cfg_wallet_DEFAULT_WITNESS_TYPE : string := %s.' % string_lit(cfg.DEFAULT_WITNESS_TYPE))
    out.append('Definition cfg_wallet_DEFAULT_NETWORK : string := %s.' % string_lit(cfg.DEFAULT_NETWORK))
    out.append('')
    out.append('(* the guards of Wallet.keys_for_path / Wallet.new_account, from the source text of wallets.py *)')
    for name, expr, src in _guards(repo):
        src = src.replace('(*', '( *').replace('*)', '* )')
        if expr is None:
            out.append('(* NOT RECOGNISED: %s *)' % src)
            expr = 'false'
        else:
            out.append('(* %s *)' % src)
        out.append('Definition %s (has_main is_private depth0 wt_differs multisig : bool) : bool :=\n  %s.' % (name, expr))
    return {'GenWalletCfg.v': '\n'.join(out) + '\n'}
