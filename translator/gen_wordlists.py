"""bitcoinlib/wordlist/*.txt -> GenWordlists.v : each bundled BIP39 word list as a list of integers
(a word is the big-endian integer of its UTF-8 bytes, exactly as Mnemonic.__init__ reads it: one word per line,
white space stripped).  Used by Proofs/Bip39Wordlists.v to check length 2048 and distinctness inside Coq."""
import glob, os


def generate(repo):
    out = ['From Coq Require Import ZArith List.\nImport ListNotations.\nOpen Scope Z_scope.\n']
    names = []
    for p in sorted(glob.glob(os.path.join(repo, 'bitcoinlib', 'wordlist', '*.txt'))):
        lang = os.path.basename(p)[:-4]
        if not lang.replace('_', '').isalnum() or not lang[0].isalpha():
            raise ValueError('unexpected word-list file name %r' % lang)
        with open(p, encoding='utf8') as f:
            words = [w.strip() for w in f.readlines()]
        nums = []
        for w in words:
            b = w.encode('utf8')
            if b[:1] == b'\x00':
                raise ValueError('word starting with NUL in %s' % lang)
            nums.append(int.from_bytes(b, 'big'))
        lines = []
        for i in range(0, len(nums), 8):
            lines.append('  ' + '; '.join(str(n) for n in nums[i:i + 8]))
        out.append('Definition wl_%s : list Z := [\n%s].\n' % (lang, ';\n'.join(lines)))
        names.append(lang)
    out.append('Definition bundled_wordlists : list (list Z) := [%s].\n' % '; '.join('wl_' + n for n in names))
    out.append('Definition bundled_count : nat := %d%%nat.\n' % len(names))
    return {'GenWordlists.v': '\n'.join(out)}
