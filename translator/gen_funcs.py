"""Small pure functions of encoding.py / scripts.py -> GenFuncs.v (via py2coq, fail-closed)."""
import ast, os
from py2coq import Fn, translate_function, INT, BYTES, BOOL, INTS

HEADER = '''From Coq Require Import ZArith List Bool.
From Coq.Strings Require Import Byte.
From Verif Require Import Lib.Bytes Lib.Py.
Import ListNotations.
Open Scope Z_scope.

'''

PLAN = [
    ('bitcoinlib/encoding.py', [
        Fn('int_to_varbyteint', [('inp', INT)], BYTES),
        Fn('varbyteint_to_int', [('byteint', BYTES)], (INT, INT)),
        Fn('varstr', [('string', BYTES)], BYTES),
        Fn('_bech32_polymod', [('values', INTS)], INT, coq_name='gen_bech32_polymod'),
        Fn('convertbits', [('data', INTS), ('frombits', INT), ('tobits', INT), ('pad', BOOL)], INTS,
           while_fuel=['bits']),
    ]),
    ('bitcoinlib/scripts.py', [
        Fn('data_pack', [('data', BYTES)], BYTES),
        Fn('encode_num', [('num', INT)], BYTES),
        Fn('decode_num', [('encoded', BYTES)], INT),
    ]),
]


def generate(repo):
    out = [HEADER]
    fns = {}
    for rel, lst in PLAN:
        tree = ast.parse(open(os.path.join(repo, rel), encoding='utf8').read())
        for fn in lst:
            out.append('(* %s: %s *)' % (rel, fn.name))
            out.append(translate_function(tree, fn, fns))
            fns[fn.name] = fn
    return {'GenFuncs.v': '\n'.join(out)}
