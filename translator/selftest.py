#!/usr/bin/env python3
"""translator/selftest.py [repo] — differential self-test of the translator (py2coq is in the trusted base).

For every function of gen_funcs.PLAN and gen_funcs2.PLAN2 the REAL Python function of the working tree and the
definition the translator produced from the same source are run on a few hundred boundary / random inputs; the
Coq side is evaluated by `Eval vm_compute` in one generated file.  Any difference (value, or raised / not
raised) is printed and the exit status is 1.  Conventions being tested: None = the Python call raises, returns
None, or (Block.target) returns a float; a str is the list of its code points; inputs stay inside the typed
domain of the translation (ints are ints, bytes are bytes; for convertbits 0 < tobits and 0 <= frombits, the
domain of its Glue lemma — outside it the Python loop does not terminate or shifts by a negative amount).

Statement ranges (Fn.outputs) are observed with sys.settrace: the local variables are read when the line of
the final `return` (or of the Fn.end_before statement) is reached; a range that starts in the middle of a body
(Fn.start_at) is entered by calling the real function on an argument from which the statements before the range
produce the wanted local variables; a method with attribute parameters is called on a bare namespace object.

Needs the compiled coq/Lib/*.vo and coq/Gen/{GenConsts,GenFuncs}.vo (any earlier ./check run).  Work
directory: /verif/run/selftest (removed afterwards).  Runs in a few seconds.
"""
import ast, importlib, os, random, re, shutil, subprocess, sys, types

HERE = os.path.dirname(os.path.abspath(__file__))
VERIF = os.path.dirname(HERE)
sys.path.insert(0, HERE)
REPO = sys.argv[1] if len(sys.argv) > 1 else os.environ.get('VERIF_REPO', '/repo')
WORK = os.path.join(VERIF, 'run', 'selftest')
os.makedirs(WORK, exist_ok=True)
os.environ.setdefault('BCL_DATA_DIR', os.path.join(WORK, 'data') + os.sep)
sys.path.insert(0, REPO)

import gen_funcs, gen_funcs2                                              # noqa: E402
from py2coq import INT, BYTES, BOOL, INTS, STR                            # noqa: E402

rng = random.Random(int(os.environ.get('VERIF_SEED', '0')))
P = 2 ** 256 - 2 ** 32 - 977
BECH32M = 0x2bc830a3


# ------------------------------------------------------------------ inputs (typed arguments of the translation)
def rbytes(n):
    return bytes(rng.randrange(256) for _ in range(n))


class Rep(bytes):
    """a long constant byte string, written `repeat b n` on the Coq side (a 65536-element list literal overflows
    coqc's parser stack)"""
    def __new__(cls, b, n):
        o = super().__new__(cls, bytes([b]) * n)
        o.b, o.n = b, n
        return o


def ints_near(points, spread=2):
    out = set()
    for p in points:
        for d in range(-spread, spread + 1):
            out.add(p + d)
            out.add(-p + d)
    return sorted(out)


def gen_inputs(name):
    if name == 'gen_int_to_varbyteint':
        xs = ints_near([0, 252, 253, 255, 256, 0xffff, 0x10000, 0xffffffff, 2 ** 32, 2 ** 63, 2 ** 64 - 1, 2 ** 64, 2 ** 70])
        return [(x,) for x in xs] + [(rng.randrange(2 ** rng.randrange(1, 70)),) for _ in range(150)]
    if name == 'gen_varbyteint_to_int':
        out = [(b'',)]
        for first in list(range(248, 256)) + [0, 1, 100]:
            for n in range(0, 11):
                out.append((bytes([first]) + rbytes(n),))
        return out + [(rbytes(rng.randrange(1, 12)),) for _ in range(100)]
    if name == 'gen_varstr':
        return [(b'',), (b'\0',), (b'\0\0',), (b'\1',)] + [(rbytes(n),) for n in
                [1, 2, 75, 252, 253, 254, 255, 256, 300]] + [(Rep(7, n),) for n in [65535, 65536, 70000]] + [(rbytes(rng.randrange(0, 40)),) for _ in range(100)]
    if name == 'gen_bech32_polymod':
        out = [([],), ([0],), ([31] * 10,), ([-1, 5, 2 ** 40, -2 ** 33],)]
        return out + [([rng.randrange(32) for _ in range(rng.randrange(0, 60))],) for _ in range(150)] + \
            [([rng.randrange(-2 ** 35, 2 ** 35) for _ in range(rng.randrange(0, 8))],) for _ in range(50)]
    if name == 'gen_convertbits':
        out = []
        for fb, tb in [(8, 5), (5, 8), (8, 8), (1, 1), (3, 11), (11, 3), (0, 4), (8, 1), (13, 7)]:
            for pad in (True, False):
                out.append(([], fb, tb, pad))
                for _ in range(10):
                    n = rng.randrange(0, 45)
                    out.append(([rng.randrange(2 ** fb) for _ in range(n)], fb, tb, pad))
                out.append(([0, 2 ** fb, 1], fb, tb, pad))      # value out of range -> None
                out.append(([1, -1], fb, tb, pad))
        return out
    if name == 'gen_data_pack':
        return [(rbytes(n),) for n in [0, 1, 2, 74, 75, 76, 77, 254, 255, 256, 257, 1000]] + [(Rep(0x51, n),) for n in [65535, 65536, 65537]] + \
            [(rbytes(rng.randrange(0, 300)),) for _ in range(100)]
    if name == 'gen_encode_num':
        pts = [0, 1, 127, 128, 255, 256, 32767, 32768, 65535, 65536, 2 ** 23, 2 ** 31, 2 ** 32, 2 ** 63, 2 ** 64, 2 ** 127]
        return [(x,) for x in ints_near(pts)] + [(rng.randrange(-2 ** 70, 2 ** 70),) for _ in range(150)]
    if name == 'gen_decode_num':
        out = [(b'',), (b'\x80',), (b'\x00',), (b'\x00\x80',), (b'\xff',), (b'\xff\xff',), (b'\x01\x00\x80',)]
        return out + [(rbytes(rng.randrange(1, 10)),) for _ in range(250)]
    if name == 'gen_mod_sqrt':
        # one evaluation is a 256-step modular exponentiation on 256-bit numbers in Coq's binary Z (about 3 s):
        # a handful of inputs only
        return [(0,), (4,), (P - 1,), (-7,), (rng.randrange(P),), (rng.randrange(2 ** 256, 2 ** 260),)]
    if name == 'gen_Block_target':
        out = [(b'',)]
        for e in [0, 1, 2, 3, 4, 5, 0x1d, 0x20, 0x21, 0xff]:
            for n in range(0, 6):
                out.append((bytes([e]) + rbytes(n),))
        return out + [(rbytes(4),) for _ in range(150)]
    if name == 'gen_base58encode':
        out = [(b'',), (b'\0',), (b'\0\0\0',), (b'\0\0hi',), (b'\x39',), (b'\x3a',), (b'\xff' * 40,)]
        for _ in range(250):
            z = rng.choice([0, 0, 0, 1, 2, 5])
            out.append((b'\0' * z + rbytes(rng.randrange(0, 40)),))
        return out
    if name == 'gen_bech32_enc_core':
        out = []
        hrps = ['bc', 'tb', 'ltc', 'x', '', 'Bc1', 'ü€', 'a' * 20]
        for _ in range(320):
            kind = rng.randrange(6)
            if kind <= 1:
                pkh = list(rbytes(rng.choice([20, 32, 40])))
            elif kind == 2:
                prog = rbytes(rng.choice([2, 18, 20, 21, 32, 38, 40]))
                pkh = [rng.choice([0, 0x51, 0x52, 0x60, 0x61, 0x4f]), len(prog)] + list(prog)
            elif kind == 3:
                prog = rbytes(rng.randrange(0, 12))
                pkh = [rng.choice([0, 0x51]), rng.randrange(0, 12)] + list(prog)
            else:
                pkh = list(rbytes(rng.randrange(0, 45)))
            out.append((pkh, rng.choice(hrps), rng.choice([0, 0, 1, 1, 2, 16, 17, 40, -1, -3]), '1',
                        rng.choice([1, 1, BECH32M, 5, 0])))
        return out
    if name in ('gen_bech32_dec_core', 'gen_bech32_checksum_core'):
        # (hrp, data) as they stand at the first statement of the range: every such pair comes from an address
        # string hrp + '1' + symbols (printable one-case hrp, symbols 0..31, at least 6 of them, 90 characters
        # at most); built with the library's own polymod / convertbits so that many pass the checksum test
        enc = importlib.import_module('bitcoinlib.encoding')
        out = []
        while len(out) < 300:
            hrp = rng.choice(['bc', 'tb', 'ltc', 'x', 'a' * 10, 'bcrt', '!~'])
            witver = rng.choice([0, 0, 0, 1, 1, 2, 16, 17, 18, 31])
            prog = rbytes(rng.choice([0, 1, 2, 19, 20, 20, 21, 32, 32, 33, 40, 41]))
            const = (1 if witver == 0 else BECH32M) if rng.random() < 0.75 else rng.choice([1, BECH32M, 7])
            d5 = enc.convertbits(list(prog), 8, 5, True)
            if d5 and rng.random() < 0.15:
                d5[-1] ^= rng.choice([1, 2, 3])               # non-zero padding bits
            if rng.random() < 0.1:
                d5 = d5 + [rng.randrange(32)]                   # a whole extra symbol
            data = [witver] + d5
            hx = [ord(c) >> 5 for c in hrp] + [0] + [ord(c) & 31 for c in hrp]
            pm = enc._bech32_polymod(hx + data + [0] * 6) ^ const
            data = data + [(pm >> 5 * (5 - i)) & 31 for i in range(6)]
            if rng.random() < 0.15:
                data[rng.randrange(len(data))] ^= rng.randrange(1, 32)
            if rng.random() < 0.05:
                data = data[-6:] if rng.random() < 0.5 else data[-7:]
            if len(hrp) + 1 + len(data) <= 90:
                out.append((hrp, data))
        return out
    raise KeyError('no input generator for ' + name)


# real call arguments from the typed arguments (default: identity)
B32 = 'qpzry9x8gf2tvdw0s3jn54khce6mua7l'
ADAPT = {
    'gen_bech32_enc_core': lambda a: (bytes(a[0]),) + tuple(a[1:]),    # the skipped first statement is list(to_bytes(.))
    'gen_bech32_dec_core': lambda a: (a[0] + '1' + ''.join(B32[d] for d in a[1]),),
    'gen_bech32_checksum_core': lambda a: (a[0] + '1' + ''.join(B32[d] for d in a[1]),),
}


# ------------------------------------------------------------------ Python value -> Gallina literal, by declared type
class NotInType(Exception):
    pass


def zlit(v):
    # coqc reads a long decimal literal in quadratic time; hexadecimal is linear
    if abs(v) < 2 ** 64:
        return '(%d)' % v
    return '(- (0x%x))' % -v if v < 0 else '(0x%x)' % v


def lit(v, ty):
    if isinstance(ty, tuple):
        if not isinstance(v, tuple) or len(v) != len(ty):
            raise NotInType()
        return '(' + ', '.join(lit(x, t) for x, t in zip(v, ty)) + ')'
    if ty == INT:
        if isinstance(v, bool) or not isinstance(v, int):
            raise NotInType()
        return zlit(v)
    if ty == BOOL:
        if not isinstance(v, bool):
            raise NotInType()
        return 'true' if v else 'false'
    if ty == BYTES:
        if not isinstance(v, (bytes, bytearray)):
            raise NotInType()
        if isinstance(v, Rep):
            return '(repeat x%02x (Z.to_nat %d))' % (v.b, v.n)
        if len(v) > 4000:
            body = bytes(v)
            for k in range(1, 256):
                if body == body[:1] * len(body):
                    return '(repeat x%02x (Z.to_nat %d))' % (body[0], len(body))
                if body[k:] == body[k:k + 1] * (len(body) - k):
                    return '(%s ++ repeat x%02x (Z.to_nat %d))' % (lit(body[:k], BYTES), body[k], len(body) - k)
            raise NotInType()
        return '[' + '; '.join('x%02x' % b for b in v) + ']'
    if ty == INTS:
        if not isinstance(v, list) or any(isinstance(x, bool) or not isinstance(x, int) for x in v):
            raise NotInType()
        return '[' + '; '.join(zlit(x) for x in v) + ']'
    if ty == STR:
        if not isinstance(v, str):
            raise NotInType()
        return '[' + '; '.join(str(ord(c)) for c in v) + ']'
    raise NotInType()


def eqb(ty):
    if isinstance(ty, tuple):
        t = eqb(ty[0])
        for x in ty[1:]:
            t = '(pair_eqb %s %s)' % (t, eqb(x))
        return t
    return {INT: 'Z.eqb', BOOL: 'Bool.eqb', BYTES: '(list_eqb Byte.eqb)', INTS: '(list_eqb Z.eqb)',
            STR: '(list_eqb Z.eqb)'}[ty]


# ------------------------------------------------------------------ running the real function
def find_def(tree, fn):
    scope = tree.body
    if fn.cls:
        scope = [n for n in tree.body if isinstance(n, ast.ClassDef) and n.name == fn.cls][0].body
    return [n for n in scope if isinstance(n, ast.FunctionDef) and n.name == fn.name][-1]


def call_real(mod, tree, fn, targs):
    """returns the Gallina literal of the expected option value"""
    args = ADAPT.get(fn.coq_name, lambda a: a)(targs)
    node = find_def(tree, fn)
    if fn.cls:
        f = getattr(mod, fn.cls).__dict__[fn.name]
        if isinstance(f, property):
            f = f.fget
        elif isinstance(f, staticmethod):
            f = f.__func__
        if fn.attrs:
            nattr = len(fn.attrs)
            obj = types.SimpleNamespace(**{a: v for (a, _), v in zip(fn.attrs, args[:nattr])})
            args = (obj,) + tuple(args[nattr:])
    else:
        f = getattr(mod, fn.name)
    try:
        if fn.outputs is not None:
            line = node.body[-1].lineno
            if fn.end_before is not None:
                line = [st.lineno for st in node.body if ast.unparse(st) == fn.end_before][0]
            code = f.__code__
            seen = {}

            def tracer(frame, event, arg):
                if frame.f_code is not code:
                    return None

                def local(frame, event, arg):
                    if event == 'line' and frame.f_lineno == line:
                        seen['v'] = tuple(frame.f_locals.get(o, NotInType) for o in fn.outputs)
                    return local
                return local
            sys.settrace(tracer)
            try:
                try:
                    f(*args)
                except Exception:
                    pass
            finally:
                sys.settrace(None)
            if 'v' not in seen:
                return 'None'
            v = seen['v'] if len(fn.outputs) > 1 else seen['v'][0]
        else:
            v = f(*args)
    except RecursionError:
        raise
    except Exception:
        return 'None'
    if v is None:
        return 'None'
    try:
        return '(Some %s)' % lit(v, fn.ret)
    except NotInType:
        return 'None'


PRELUDE = '''From Coq Require Import ZArith List Bool.
From Coq.Strings Require Import Byte.
From Verif Require Import Lib.Bytes Lib.Py Lib.Py2.
From ST Require Import GenFuncs GenFuncs2.
Import ListNotations.
Open Scope Z_scope.
Fixpoint list_eqb {A : Type} (e : A -> A -> bool) (a b : list A) : bool :=
  match a, b with
  | [], [] => true
  | x :: r, y :: s => e x y && list_eqb e r s
  | _, _ => false
  end.
Definition pair_eqb {A B : Type} (ea : A -> A -> bool) (eb : B -> B -> bool) (p q : A * B) : bool :=
  ea (fst p) (fst q) && eb (snd p) (snd q).
Definition opt_eqb {A : Type} (e : A -> A -> bool) (a b : option A) : bool :=
  match a, b with Some x, Some y => e x y | None, None => true | _, _ => false end.
Fixpoint failing (i : nat) (l : list bool) : list nat :=
  match l with [] => [] | b :: r => (if b then [] else [i]) ++ failing (S i) r end.
'''


def main():
    t1 = gen_funcs.generate(REPO)['GenFuncs.v']
    t2 = gen_funcs2.generate(REPO)['GenFuncs2.v'].replace('Lib.Py2 Gen.GenFuncs.', 'Lib.Py2.\nFrom ST Require Import GenFuncs.')
    if 'UNTRANSLATABLE' in t2:
        print('selftest: FAIL — a function of the second plan left the fragment:')
        print('\n'.join(l for l in t2.splitlines() if 'UNTRANSLATABLE' in l))
        return 1
    open(os.path.join(WORK, 'GenFuncs.v'), 'w', encoding='utf8').write(t1)
    open(os.path.join(WORK, 'GenFuncs2.v'), 'w', encoding='utf8').write(t2)
    plan = [(rel, rel[:-3].replace('/', '.'), lst) for rel, lst in gen_funcs.PLAN] + list(gen_funcs2.PLAN2)
    out = [PRELUDE]
    cases = {}
    order = []
    for rel, modname, lst in plan:
        mod = importlib.import_module(modname)
        if os.path.realpath(mod.__file__) != os.path.realpath(os.path.join(REPO, rel)):
            print('selftest: %s imported from %s' % (modname, mod.__file__))
            return 2
        tree = ast.parse(open(os.path.join(REPO, rel), encoding='utf8').read())
        for fn in lst:
            ins = gen_inputs(fn.coq_name)
            tys = [t for _, t in fn.attrs] + [t for _, t in (fn.range_inputs if fn.start_at is not None else fn.args)]
            rows = []
            for a in ins:
                exp = call_real(mod, tree, fn, a)
                call = '%s %s' % (fn.coq_name, ' '.join(lit(v, t) for v, t in zip(a, tys)))
                rows.append('opt_eqb %s (%s) %s' % (eqb(fn.ret), call, exp))
            cases[fn.coq_name] = ins
            order.append(fn.coq_name)
            out.append('Definition r_%s : list bool := [\n  %s].' % (fn.coq_name, ';\n  '.join(rows)))
            out.append('Eval vm_compute in (%d%%nat, failing 0 r_%s).' % (len(order) - 1, fn.coq_name))
    open(os.path.join(WORK, 'SelfTest.v'), 'w', encoding='utf8').write('\n'.join(out) + '\n')
    base = ['coqc', '-Q', WORK, 'ST', '-Q', os.path.join(VERIF, 'coq'), 'Verif', '-w', '-notation-overridden']
    text = ''
    for f in ('GenFuncs.v', 'GenFuncs2.v', 'SelfTest.v'):
        p = subprocess.run(['timeout', '300'] + base + [os.path.join(WORK, f)], capture_output=True, text=True)
        if p.returncode != 0:
            print('selftest: coqc %s failed:\n%s' % (f, (p.stdout + p.stderr)[-2000:]))
            return 2
        text = p.stdout
    res = re.findall(r'=\s*\((\d+)%nat,\s*\[(.*?)\](?:%nat)?\)', text, flags=re.S)
    if len(res) != len(order):
        print('selftest: could not read the Coq output (%d of %d results)' % (len(res), len(order)))
        return 2
    bad = 0
    total = 0
    for idx, body in res:
        name = order[int(idx)]
        fails = [int(x) for x in re.findall(r'\d+', body)]
        total += len(cases[name])
        print('%-28s %4d inputs  %s' % (name, len(cases[name]), 'ok' if not fails else '%d DIFFERENCES' % len(fails)))
        for i in fails[:5]:
            print('    input %r' % (cases[name][i],))
        bad += len(fails)
    print('selftest: %d functions, %d evaluations, %d differences' % (len(order), total, bad))
    return 1 if bad else 0


if __name__ == '__main__':
    try:
        rc = main()
    finally:
        if not os.environ.get('SELFTEST_KEEP'):
            shutil.rmtree(WORK, ignore_errors=True)
    sys.exit(rc)
