"""keys.py / wallets.py / db.py (AST of the working tree) -> GenFields.v  (used by C16).

Emits, using stdlib types only (string, list, pairs):
  * <cls>_attrs            every attribute ever assigned on an instance of Key / HDKey / WalletKey
                           (`self.X = ...` in any method, plus `<copy>.X = ...` inside public())
  * <cls>_public_copy      how public() obtains the object it returns ("deepcopy(self)" | "self")
  * <cls>_public_assigns   the assignments public() performs, in order: (target, (guard, rhs)) with guard "" when
                           unconditional; the returned alias is spelled "self" in guard/rhs
  * <cls>_as_dict          dictionary entries of as_dict: (key, (guard, source expression))
  * <cls>_repr_args / _str_args   the expressions interpolated by __repr__ / __str__
  * dbkey_columns / dbwallet_columns   (column, type name);  db_encrypted_columns (class, column) over all of db.py
  * dbkey_writes           every (column, source expression) written to a DbKey row anywhere in wallets.py
  * wallet_keys_private_fields   the column names Wallet.keys(as_dict=True) removes unless include_private
  * wallet_as_dict_keys_calls    the self.keys(...) calls made by Wallet.as_dict
  * encrypted_bind_plain_conditions   the `if` test under which Encrypted*.process_bind_param stores plaintext
  * wallet_public_master_paths / wallet_wif_paths / hdkey_public_master_paths
                           every path through the method body that ends in a return: (tests with polarity, statements)
  * export_signatures      (Class.method, argument list with defaults) of every public-view / export entry point
Fail closed: any statement shape that is not recognised raises (the translation aborts, the check reports it)."""
import ast, os
from coqfmt import string_lit, list_lit

HDR = '''From Coq Require Import List String.
Import ListNotations.
Open Scope string_scope.
'''


class Shape(Exception):
    pass


def S(s):
    s.encode('ascii')
    return '"' + s.replace('"', '""') + '"'


def pair(a, b):
    return '(%s, %s)' % (a, b)


def triple(a, b, c):
    return '(%s, (%s, %s))' % (S(a), S(b), S(c))


def deflist(name, ty, items):
    if not items:
        return 'Definition %s : list %s := [].\n' % (name, ty)
    return 'Definition %s : list %s :=\n  [ %s ].\n' % (name, ty, ';\n    '.join(items))


def classes(tree):
    return {n.name: n for n in tree.body if isinstance(n, ast.ClassDef)}


def methods(cls):
    out = {}
    for n in cls.body:
        if isinstance(n, ast.FunctionDef):
            # property getter and setter share a name: keep both bodies
            out.setdefault(n.name, []).append(n)
    return out


def one(cls, name):
    m = methods(cls).get(name)
    if not m or len(m) != 1:
        raise Shape('%s.%s: expected exactly one definition' % (cls.name, name))
    return m[0]


def strip_doc(body):
    if body and isinstance(body[0], ast.Expr) and isinstance(body[0].value, ast.Constant) and \
            isinstance(body[0].value.value, str):
        return body[1:]
    return body


def targets_of(node):
    if isinstance(node, ast.Assign):
        ts = node.targets
    elif isinstance(node, (ast.AugAssign, ast.AnnAssign)):
        ts = [node.target]
    else:
        return []
    out = []
    for t in ts:
        if isinstance(t, (ast.Tuple, ast.List)):
            out.extend(t.elts)
        else:
            out.append(t)
    return out


class Rename(ast.NodeTransformer):
    def __init__(self, names):
        self.names = names

    def visit_Name(self, n):
        if n.id in self.names:
            return ast.copy_location(ast.Name(id='self', ctx=n.ctx), n)
        return n


def unparse(e, alias=()):
    import copy
    e = Rename(set(alias)).visit(copy.deepcopy(e))
    return ast.unparse(e)


# ------------------------------------------------------------------ attribute sets
def instance_attrs(cls):
    """all X with `self.X = ...` in any method; setattr/__dict__ tricks are not understood -> raise."""
    attrs = []
    for n in ast.walk(cls):
        if isinstance(n, ast.Call) and isinstance(n.func, ast.Name) and n.func.id in ('setattr', 'delattr'):
            raise Shape('%s uses %s()' % (cls.name, n.func.id))
        if isinstance(n, ast.Attribute) and n.attr == '__dict__' and isinstance(n.ctx, ast.Store):
            raise Shape('%s assigns __dict__' % cls.name)
        if isinstance(n, ast.Delete):
            for t in n.targets:
                if isinstance(t, ast.Attribute) and isinstance(t.value, ast.Name) and t.value.id == 'self':
                    raise Shape('%s deletes an attribute' % cls.name)
        for t in targets_of(n):
            if isinstance(t, ast.Attribute) and isinstance(t.value, ast.Name) and t.value.id == 'self':
                if t.attr not in attrs:
                    attrs.append(t.attr)
    return attrs


# ------------------------------------------------------------------ public()
def public_method(cls):
    f = one(cls, 'public')
    if [a.arg for a in f.args.args] != ['self'] or f.args.vararg or f.args.kwarg or f.args.kwonlyargs:
        raise Shape('%s.public: unexpected signature' % cls.name)
    body = strip_doc(f.body)
    if len(body) < 2:
        raise Shape('%s.public: body too short' % cls.name)
    first = body[0]
    if not (isinstance(first, ast.Assign) and len(first.targets) == 1 and isinstance(first.targets[0], ast.Name)):
        raise Shape('%s.public: first statement is not `<name> = ...`' % cls.name)
    alias = first.targets[0].id
    copy_expr = ast.unparse(first.value)
    if copy_expr not in ('deepcopy(self)', 'self'):
        raise Shape('%s.public: copy expression %r not understood' % (cls.name, copy_expr))
    last = body[-1]
    if not (isinstance(last, ast.Return) and isinstance(last.value, ast.Name) and last.value.id == alias):
        raise Shape('%s.public: does not end with `return %s`' % (cls.name, alias))
    names = {alias} if copy_expr == 'deepcopy(self)' else {alias, 'self'}
    assigns = []

    def one_assign(st, guard):
        if not (isinstance(st, ast.Assign) and len(st.targets) == 1):
            raise Shape('%s.public: statement %r not understood' % (cls.name, ast.unparse(st)))
        t = st.targets[0]
        if not (isinstance(t, ast.Attribute) and isinstance(t.value, ast.Name) and t.value.id in names):
            raise Shape('%s.public: assignment target %r is not an attribute of the returned object'
                        % (cls.name, ast.unparse(t)))
        if copy_expr == 'deepcopy(self)':
            # anything read from the ORIGINAL (`self`) in a deep-copying public() would bypass the stripping
            for n in ast.walk(st.value):
                if isinstance(n, ast.Name) and n.id == 'self':
                    raise Shape('%s.public: reads the original object in %r' % (cls.name, ast.unparse(st)))
        assigns.append((t.attr, guard, unparse(st.value, names)))

    for st in body[1:-1]:
        if isinstance(st, ast.If):
            if st.orelse or len(st.body) != 1:
                raise Shape('%s.public: if-statement shape not understood' % cls.name)
            one_assign(st.body[0], unparse(st.test, names))
        else:
            one_assign(st, '')
    return copy_expr, assigns, [a for a, _, _ in assigns]


# ------------------------------------------------------------------ exports
def mod_args(expr, cls, what):
    """the interpolated expressions of `"fmt" % args` (or the expression itself)."""
    if isinstance(expr, ast.BinOp) and isinstance(expr.op, ast.Mod) and isinstance(expr.left, ast.Constant):
        r = expr.right
        return [ast.unparse(e) for e in (r.elts if isinstance(r, ast.Tuple) else [r])]
    if isinstance(expr, (ast.Attribute, ast.Name)):
        return [ast.unparse(expr)]
    raise Shape('%s.%s: returned expression %r not understood' % (cls.name, what, ast.unparse(expr)))


def fmt_method(cls, name):
    ms = methods(cls).get(name)
    if not ms:
        return None
    if len(ms) != 1:
        raise Shape('%s.%s defined twice' % (cls.name, name))
    out = []
    local = {}

    def scan(stmts, guard):
        for st in stmts:
            if isinstance(st, ast.Assign) and len(st.targets) == 1 and isinstance(st.targets[0], ast.Name):
                local.setdefault(st.targets[0].id, []).append(('[%s] ' % guard if guard else '') + ast.unparse(st.value))
            elif isinstance(st, ast.If):
                g = ast.unparse(st.test)
                scan(st.body, (guard + ' and ' + g) if guard else g)
                scan(st.orelse, (guard + ' and not (%s)' % g) if guard else 'not (%s)' % g)
            elif isinstance(st, (ast.Return, ast.Expr)):
                pass
            else:
                raise Shape('%s.%s: statement %r not understood' % (cls.name, name, ast.unparse(st)[:60]))

    scan(strip_doc(ms[0].body), '')
    rets = [st for st in ast.walk(ms[0]) if isinstance(st, ast.Return)]
    if not rets:
        raise Shape('%s.%s: no return' % (cls.name, name))
    for r in rets:
        for a in mod_args(r.value, cls, name):
            # a local name stands for every expression it may have been assigned
            if a in local:
                a = a + ' <- ' + ' | '.join(local[a])
            if a not in out:
                out.append(a)
    return out


def dict_entries(d, guard, cls):
    out = []
    for k, v in zip(d.keys, d.values):
        if not (isinstance(k, ast.Constant) and isinstance(k.value, str)):
            raise Shape('%s.as_dict: non-literal dictionary key' % cls.name)
        out.append((k.value, guard, ast.unparse(v)))
    return out


def as_dict_method(cls, simple=True):
    """entries written by as_dict, each with the guard it is written under."""
    f = one(cls, 'as_dict')
    entries = []

    def walk(stmts, guard):
        for st in stmts:
            if isinstance(st, ast.Expr) and isinstance(st.value, ast.Constant):
                continue
            if isinstance(st, ast.If):
                g = ast.unparse(st.test)
                if guard:
                    g = guard + ' and ' + g
                walk(st.body, g)
                if st.orelse:
                    walk(st.orelse, ('not (%s)' % ast.unparse(st.test)) if not guard else guard + ' and not (%s)' % ast.unparse(st.test))
                continue
            if isinstance(st, ast.For):
                if simple:
                    raise Shape('%s.as_dict: loop not understood' % cls.name)
                entries.append(('$for', guard, ast.unparse(st.target) + ' in ' + ast.unparse(st.iter)))
                walk(st.body, guard)
                continue
            if isinstance(st, ast.Return):
                if isinstance(st.value, ast.Dict):
                    entries.extend(dict_entries(st.value, guard, cls))
                elif not isinstance(st.value, ast.Name):
                    raise Shape('%s.as_dict: return shape' % cls.name)
                continue
            if isinstance(st, ast.Assign) and len(st.targets) == 1:
                t = st.targets[0]
                if isinstance(t, ast.Subscript) and isinstance(t.value, ast.Name) and isinstance(t.slice, ast.Constant):
                    entries.append((t.slice.value, guard, ast.unparse(st.value)))
                    continue
                if isinstance(t, ast.Name) and isinstance(st.value, ast.Dict):
                    entries.extend(dict_entries(st.value, guard, cls))
                    continue
                if isinstance(t, (ast.Name, ast.Tuple)):
                    entries.append(('$local ' + ast.unparse(t), guard, ast.unparse(st.value)))
                    continue
            if isinstance(st, ast.Expr) and isinstance(st.value, ast.Call) and \
                    isinstance(st.value.func, ast.Attribute):
                c = st.value
                if c.func.attr == 'update' and len(c.args) == 1 and isinstance(c.args[0], ast.Dict):
                    entries.extend(dict_entries(c.args[0], guard, cls))
                    continue
                if c.func.attr == 'append' and not simple:
                    entries.append(('$append ' + ast.unparse(c.func.value), guard, ast.unparse(c.args[0])))
                    continue
            raise Shape('%s.as_dict: statement %r not understood' % (cls.name, ast.unparse(st)[:80]))

    walk(strip_doc(f.body), '')
    return entries


# ------------------------------------------------------------------ database
def db_columns(cls):
    cols = []
    for st in cls.body:
        if isinstance(st, ast.Assign) and len(st.targets) == 1 and isinstance(st.targets[0], ast.Name) and \
                isinstance(st.value, ast.Call) and isinstance(st.value.func, ast.Name):
            if st.value.func.id == 'Column':
                if not st.value.args:
                    raise Shape('%s.%s: Column without a type' % (cls.name, st.targets[0].id))
                t = st.value.args[0]
                if isinstance(t, ast.Call):
                    t = t.func
                if not isinstance(t, ast.Name):
                    raise Shape('%s.%s: column type not understood' % (cls.name, st.targets[0].id))
                cols.append((st.targets[0].id, t.id))
    return cols


def dbkey_writes(tree, colnames):
    """(column, source expression) for every write to a DbKey row in wallets.py."""
    writes = []

    def mentions_dbkey_query(e):
        q = False
        for n in ast.walk(e):
            if isinstance(n, ast.Call) and isinstance(n.func, ast.Attribute) and n.func.attr == 'query':
                if any(isinstance(a, ast.Name) and a.id == 'DbKey' for a in n.args):
                    q = True
        return q

    for fn in ast.walk(tree):
        if not isinstance(fn, ast.FunctionDef):
            continue
        rows = set()
        for n in ast.walk(fn):
            if isinstance(n, ast.Assign) and len(n.targets) == 1 and isinstance(n.targets[0], ast.Name):
                v = n.value
                if (isinstance(v, ast.Call) and isinstance(v.func, ast.Name) and v.func.id == 'DbKey') or \
                        mentions_dbkey_query(v):
                    rows.add(n.targets[0].id)
            if isinstance(n, ast.For) and isinstance(n.target, ast.Name) and mentions_dbkey_query(n.iter):
                rows.add(n.target.id)
        for n in ast.walk(fn):
            if isinstance(n, ast.Call) and isinstance(n.func, ast.Name) and n.func.id == 'DbKey':
                if n.args:
                    raise Shape('DbKey(...) with positional arguments in %s' % fn.name)
                for kw in n.keywords:
                    if kw.arg is None:
                        raise Shape('DbKey(**...) in %s' % fn.name)
                    writes.append((kw.arg, ast.unparse(kw.value)))
            for t in targets_of(n):
                if isinstance(t, ast.Attribute) and isinstance(t.value, ast.Name) and t.value.id in rows \
                        and t.attr in colnames:
                    writes.append((t.attr, ast.unparse(n.value)))
                # self._dbkey.X = ...
                if isinstance(t, ast.Attribute) and isinstance(t.value, ast.Attribute) and t.value.attr == '_dbkey' \
                        and t.attr in colnames:
                    writes.append((t.attr, ast.unparse(n.value)))
            if isinstance(n, ast.Call) and isinstance(n.func, ast.Attribute) and n.func.attr == 'update' and n.args \
                    and isinstance(n.args[0], ast.Dict):
                for k, v in zip(n.args[0].keys, n.args[0].values):
                    if isinstance(k, ast.Attribute) and isinstance(k.value, ast.Name) and k.value.id == 'DbKey':
                        writes.append((k.attr, ast.unparse(v)))
    out = []
    for w in writes:
        if w not in out:
            out.append(w)
    return sorted(out)


def wallet_private_fields(wallet_cls):
    f = one(wallet_cls, 'keys')
    found = []
    for n in ast.walk(f):
        if isinstance(n, ast.If) and ast.unparse(n.test) == 'not include_private':
            for st in n.body:
                if isinstance(st, ast.AugAssign) and isinstance(st.target, ast.Name) and \
                        st.target.id == 'private_fields' and isinstance(st.value, ast.List):
                    found.append([e.value for e in st.value.elts])
    if len(found) != 1:
        raise Shape('Wallet.keys: private_fields filter not found')
    # the filter must actually be applied to the row dictionaries
    src = ast.unparse(f)
    if 'k not in private_fields' not in src:
        raise Shape('Wallet.keys: private_fields is not applied')
    return found[0]


def bind_plain_conditions(tree):
    out = []
    for name in ('EncryptedBinary', 'EncryptedString'):
        cls = classes(tree)[name]
        f = one(cls, 'process_bind_param')
        body = strip_doc(f.body)
        if not (isinstance(body[0], ast.If) and len(body[0].body) == 1 and isinstance(body[0].body[0], ast.Return)
                and ast.unparse(body[0].body[0].value) == 'value'):
            raise Shape('%s.process_bind_param: shape' % name)
        last = body[-1]
        if not (isinstance(last, ast.Return) and ast.unparse(last.value) == 'aes_encrypt(value, self.key)'):
            raise Shape('%s.process_bind_param: does not end in aes_encrypt(value, self.key)' % name)
        out.append((name, ast.unparse(body[0].test)))
    return out


# ------------------------------------------------------------------ paths of a method (Wallet.public_master, Wallet.wif)
def flat(node):
    return ' '.join(ast.unparse(node).split())


def has_return(stmts):
    return any(isinstance(n, ast.Return) for st in stmts for n in ast.walk(st))


def return_paths(cls, name):
    """every path through the body of cls.name that ends in a return: ([(test, polarity) ...], [statement ...]).
    An `if` that contains a return forks the path; every other statement is taken verbatim (one line).  A return
    inside a loop / try / with is not understood -> raise."""
    f = one(cls, name)
    paths = []

    def walk(stmts, guards, acc):
        for i, st in enumerate(stmts):
            if isinstance(st, ast.Return):
                paths.append((guards, acc + [flat(st)]))
                return
            if isinstance(st, ast.If) and has_return([st]):
                t = flat(st.test)
                rest = stmts[i + 1:]
                walk(list(st.body) + rest, guards + [(t, True)], acc)
                walk(list(st.orelse) + rest, guards + [(t, False)], acc)
                return
            if has_return([st]):
                raise Shape('%s.%s: return inside %s' % (cls.name, name, type(st).__name__))
            acc = acc + [flat(st)]
        paths.append((guards, acc + ['return None']))

    walk(strip_doc(f.body), [], [])
    return paths


def paths_def(name, paths):
    items = []
    for guards, stmts in paths:
        g = '[' + '; '.join('(%s, %s)' % (S(t), 'true' if b else 'false') for t, b in guards) + ']'
        items.append('(%s,\n     [ %s ])' % (g, ';\n       '.join(S(x) for x in stmts)))
    return deflist(name, '(list (string * bool) * list string)', items)


def signature(cls, name):
    return flat(one(cls, name).args)


# ------------------------------------------------------------------ public-view entry points: parameters and forwarding
# the hand-picked view / export entry points (their argument lists are frozen in the model as export_signatures)
ENTRY_POINTS = (('Key', ('public', 'as_dict', 'as_json', 'wif', 'info')),
                ('HDKey', ('public', 'as_dict', 'as_json', 'wif', 'wif_public', 'info', 'public_master',
                           'public_master_multisig')),
                ('Address', ('as_dict', 'as_json')),
                ('WalletKey', ('public', 'as_dict', 'key')),
                ('Wallet', ('public_master', 'wif', 'as_dict', 'as_json', 'info', 'keys', 'account')))
BASES = {'HDKey': 'Key'}
# classes of the receivers other than self in the bodies of the entry points (reviewed by hand; an unknown receiver
# with positional arguments is recorded as $pos<i>, which the frozen copy does not contain)
RECEIVER_HINTS = {'cs': 'Wallet', 'key': 'WalletKey'}


def public_named_defs(trees):
    """every function / method of keys.py, wallets.py, db.py whose NAME presents its result as public."""
    out = []
    for mod in ('keys', 'wallets', 'db'):
        for n in trees[mod].body:
            if isinstance(n, ast.FunctionDef) and 'public' in n.name.lower():
                out.append('%s:%s' % (mod, n.name))
            if isinstance(n, ast.ClassDef):
                for m in n.body:
                    if isinstance(m, ast.FunctionDef) and 'public' in m.name.lower():
                        q = '%s.%s' % (n.name, m.name)
                        if q not in out:
                            out.append(q)
    return out


def is_property(fn):
    return any(ast.unparse(d) in ('property',) or ast.unparse(d).endswith('.setter') for d in fn.decorator_list)


def params_of(fn, what):
    """[(parameter, default source text | '$required')] without self; *args / **kwargs / keyword-only are not
    understood on a view entry point -> raise."""
    a = fn.args
    if a.vararg or a.kwarg or a.kwonlyargs or a.posonlyargs:
        raise Shape('%s: argument list shape not understood' % what)
    names = [x.arg for x in a.args]
    defaults = ['$required'] * (len(names) - len(a.defaults)) + [ast.unparse(d) for d in a.defaults]
    out = list(zip(names, defaults))
    if out and out[0][0] in ('self', 'cls'):
        out = out[1:]
    return out


def entry_points(kc, wc, trees):
    """(qualified name, class, FunctionDef) of the hand-picked entry points followed by every further public-named
    method of the key / wallet classes (first definition: the getter of a property)."""
    cls_of = {'Key': kc['Key'], 'HDKey': kc['HDKey'], 'Address': kc['Address'], 'WalletKey': wc['WalletKey'],
              'Wallet': wc['Wallet']}
    out = []
    for cname, names in ENTRY_POINTS:
        for n in names:
            out.append((cname + '.' + n, cname, one(cls_of[cname], n)))
    have = {q for q, _, _ in out}
    for q in public_named_defs(trees):
        if ':' in q or q in have:
            continue
        cname, n = q.split('.')
        if cname in cls_of:
            out.append((q, cname, methods(cls_of[cname])[n][0]))
    return out, cls_of


def resolve_method(cls_of, cname, attr):
    while cname:
        ms = methods(cls_of[cname]).get(attr) if cname in cls_of else None
        if ms:
            return cname, ms[0]
        cname = BASES.get(cname)
    return None, None


def call_forwards(eps, cls_of):
    """for every entry point: every call of (a method with the name of) an entry point in its body, as
    (caller, (callee text, [(callee parameter, argument source text)])) with positional arguments resolved to the
    callee's parameter names.  This is the keyword -> argument mapping the model interprets for the helpers that
    only forward (HDKey.public_master_multisig -> HDKey.public_master)."""
    names = {q.split('.')[1] for q, _, _ in eps}
    out = []
    for q, cname, fn in eps:
        for n in ast.walk(fn):
            if not (isinstance(n, ast.Call) and isinstance(n.func, ast.Attribute) and n.func.attr in names):
                continue
            recv = n.func.value
            rtxt = flat(recv)
            if any(isinstance(a, ast.Starred) for a in n.args) or any(k.arg is None for k in n.keywords):
                raise Shape('%s: call %s with * / ** arguments' % (q, flat(n)))
            if isinstance(recv, ast.Name) and recv.id == 'self':
                ccls = cname
            elif isinstance(recv, ast.Call) and isinstance(recv.func, ast.Name) and recv.func.id == 'super':
                ccls = BASES.get(cname)
                if recv.args:
                    ccls = BASES.get(ast.unparse(recv.args[0]))
            elif isinstance(recv, ast.Name):
                ccls = RECEIVER_HINTS.get(recv.id)
            else:
                ccls = None
            callee = None
            if ccls:
                _, callee = resolve_method(cls_of, ccls, n.func.attr)
            pnames = [p for p, _ in params_of(callee, q)] if callee is not None else []
            pairs = []
            for i, a in enumerate(n.args):
                pairs.append((pnames[i] if i < len(pnames) else '$pos%d' % i, flat(a)))
            for k in n.keywords:
                pairs.append((k.arg, flat(k.value)))
            out.append((q, rtxt + '.' + n.func.attr, pairs))
    return out


# ------------------------------------------------------------------ PATH requests and database row presentation
# entry points that present a public view by the VALUE of an argument (a path that starts with 'M'); kept apart from
# ENTRY_POINTS because their parameters are not requests for private output by name
PATH_ENTRY_POINTS = (('HDKey', ('subkey_for_path',)),)
# every method through which an object of db.py can end up as text in a default export (str / repr / format of a row
# that sits in a row dictionary, json default=str, pickling hooks)
PRESENTATION_METHODS = ('__repr__', '__str__', '__format__', '__unicode__', '__bytes__', '__json__', '__iter__', '__getitem__',
                        '__getattr__', '__getattribute__', '__getstate__', '__reduce__', '__reduce_ex__', 'as_dict', 'as_json',
                        'to_dict', 'to_json', '__html__', '_repr_pretty_', '_repr_html_')


def db_presentation_methods(db_tree):
    """(Class.method, source on one line) for every presentation method of EVERY class of db.py, plus one row
    (Class, "-") per class so that a class without any is listed too; module-level monkey patching of such a method
    (`DbKey.__repr__ = ...`, setattr) is not understood -> raise."""
    out = []
    for n in ast.walk(db_tree):
        for t in targets_of(n):
            if isinstance(t, ast.Attribute) and t.attr in PRESENTATION_METHODS:
                raise Shape('db.py assigns %s' % ast.unparse(t))
        if isinstance(n, ast.Call) and isinstance(n.func, ast.Name) and n.func.id == 'setattr':
            raise Shape('db.py uses setattr()')
    for cname, cls in classes(db_tree).items():
        out.append((cname, '-'))
        for m in cls.body:
            if isinstance(m, (ast.FunctionDef, ast.AsyncFunctionDef)) and m.name in PRESENTATION_METHODS:
                body = '; '.join(flat(st) for st in strip_doc(m.body))
                out.append(('%s.%s' % (cname, m.name), body))
            # a presentation method bound by assignment inside the class body (__str__ = __repr__, = some_function)
            for t in targets_of(m):
                if isinstance(t, ast.Name) and t.id in PRESENTATION_METHODS:
                    out.append(('%s.%s' % (cname, t.id), '= ' + flat(m.value)))
    return out


def generate(repo):
    src = {}
    for f in ('keys', 'wallets', 'db'):
        src[f] = ast.parse(open(os.path.join(repo, 'bitcoinlib', f + '.py'), encoding='utf8').read())
    kc, wc, dc = classes(src['keys']), classes(src['wallets']), classes(src['db'])
    out = [HDR]
    sp = '(string * (string * string))'
    for label, cls in (('key', kc['Key']), ('hdkey', kc['HDKey']), ('walletkey', wc['WalletKey'])):
        copy_expr, assigns, assigned = public_method(cls)
        attrs = instance_attrs(cls)
        for a in assigned:
            if a not in attrs:
                attrs.append(a)
        out.append(deflist(label + '_attrs', 'string', [S(a) for a in sorted(attrs)]))
        out.append('Definition %s_public_copy : string := %s.\n' % (label, S(copy_expr)))
        out.append(deflist(label + '_public_assigns', sp, [triple(*a) for a in assigns]))
        out.append(deflist(label + '_as_dict', sp, [triple(*e) for e in as_dict_method(cls)]))
        out.append(deflist(label + '_repr_args', 'string', [S(a) for a in fmt_method(cls, '__repr__') or []]))
        out.append(deflist(label + '_str_args', 'string', [S(a) for a in fmt_method(cls, '__str__') or []]))
    wl = wc['Wallet']
    out.append(deflist('wallet_repr_args', 'string', [S(a) for a in fmt_method(wl, '__repr__')]))
    out.append(deflist('wallet_str_args', 'string', [S(a) for a in fmt_method(wl, '__str__')]))
    wad = as_dict_method(wl, simple=False)
    out.append(deflist('wallet_as_dict', sp, [triple(*e) for e in wad]))
    out.append(deflist('wallet_keys_private_fields', 'string', [S(a) for a in wallet_private_fields(wl)]))
    out.append(deflist('address_repr_args', 'string', [S(a) for a in fmt_method(kc['Address'], '__repr__')]))
    out.append(deflist('dbkey_repr_args', 'string', [S(a) for a in fmt_method(dc['DbKey'], '__repr__')]))
    cols = db_columns(dc['DbKey'])
    out.append(deflist('dbkey_columns', '(string * string)', [pair(S(a), S(b)) for a, b in cols]))
    out.append(deflist('dbwallet_columns', '(string * string)', [pair(S(a), S(b)) for a, b in db_columns(dc['DbWallet'])]))
    enc = []
    for name, cls in dc.items():
        for c, t in db_columns(cls):
            if t.startswith('Encrypted'):
                enc.append((name, c))
    out.append(deflist('db_encrypted_columns', '(string * string)', [pair(S(a), S(b)) for a, b in enc]))
    out.append(deflist('dbkey_writes', '(string * string)',
                       [pair(S(a), S(b)) for a, b in dbkey_writes(src['wallets'], [c for c, _ in cols])]))
    out.append(deflist('encrypted_bind_plain_conditions', '(string * string)',
                       [pair(S(a), S(b)) for a, b in bind_plain_conditions(src['db'])]))
    out.append(paths_def('wallet_public_master_paths', return_paths(wl, 'public_master')))
    out.append(paths_def('wallet_wif_paths', return_paths(wl, 'wif')))
    out.append(paths_def('hdkey_public_master_paths', return_paths(kc['HDKey'], 'public_master')))
    out.append(paths_def('walletkey_key_paths', return_paths(wc['WalletKey'], 'key')))
    out.append(paths_def('as_json_paths', return_paths(kc['Key'], 'as_json') + return_paths(kc['HDKey'], 'as_json')
                         + return_paths(wl, 'as_json')))
    sigs = []
    for cname, cls, names in (('Key', kc['Key'], ('public', 'as_dict', 'as_json', 'wif', 'info')),
                              ('HDKey', kc['HDKey'], ('public', 'as_dict', 'as_json', 'wif', 'wif_public', 'info',
                                                      'public_master', 'public_master_multisig')),
                              ('Address', kc['Address'], ('as_dict', 'as_json')),
                              ('WalletKey', wc['WalletKey'], ('public', 'as_dict', 'key')),
                              ('Wallet', wl, ('public_master', 'wif', 'as_dict', 'as_json', 'info', 'keys', 'account'))):
        for n in names:
            sigs.append(pair(S(cname + '.' + n), S(signature(cls, n))))
    out.append(deflist('export_signatures', '(string * string)', sigs))
    # every function whose name presents its result as public; the parameters (with defaults) of every entry point;
    # which argument each forwarding call hands to which parameter of its callee; the body of the forwarding helper
    out.append(deflist('public_named_defs', 'string', [S(q) for q in public_named_defs(src)]))
    eps, cls_of = entry_points(kc, wc, src)
    out.append(deflist('entry_params', '(string * list (string * string))',
                       [pair(S(q), '[' + '; '.join(pair(S(p), S(d)) for p, d in
                                                    ([] if is_property(fn) else params_of(fn, q))) + ']')
                        for q, _, fn in eps]))
    out.append(deflist('entry_properties', 'string', [S(q) for q, _, fn in eps if is_property(fn)]))
    out.append(deflist('call_forwards', '(string * (string * list (string * string)))',
                       [pair(S(q), pair(S(c), '[' + '; '.join(pair(S(p), S(a)) for p, a in prs) + ']'))
                        for q, c, prs in call_forwards(eps, cls_of)]))
    out.append(paths_def('hdkey_public_master_multisig_paths', return_paths(kc['HDKey'], 'public_master_multisig')))
    out.append(paths_def('hdkey_wif_public_paths', return_paths(kc['HDKey'], 'wif_public')))
    out.append(paths_def('hdkey_wif_paths', return_paths(kc['HDKey'], 'wif')))
    # PATH requests (subkey_for_path with a path that starts with 'M') and the presentation methods of the database rows
    out.append(paths_def('hdkey_subkey_for_path_paths', return_paths(kc['HDKey'], 'subkey_for_path')))
    out.append(deflist('path_entry_params', '(string * list (string * string))',
                       [pair(S(c + '.' + n), '[' + '; '.join(pair(S(p), S(d)) for p, d in
                                                             params_of(one(kc[c], n), c + '.' + n)) + ']')
                        for c, names in PATH_ENTRY_POINTS for n in names]))
    out.append(deflist('db_presentation_methods', '(string * string)',
                       [pair(S(a), S(b)) for a, b in db_presentation_methods(src['db'])]))
    return {'GenFields.v': '\n'.join(out)}


def entry_point_params(repo):
    """{qualified name: [(parameter, default text)]} of every public-view entry point, for the case generator of
    harness/props/c16.py (which arguments exist; the VALUES tried come from a frozen table there)."""
    src = {}
    for f in ('keys', 'wallets', 'db'):
        src[f] = ast.parse(open(os.path.join(repo, 'bitcoinlib', f + '.py'), encoding='utf8').read())
    kc, wc = classes(src['keys']), classes(src['wallets'])
    eps, _ = entry_points(kc, wc, src)
    out = {q: (None if is_property(fn) else params_of(fn, q)) for q, _, fn in eps}
    for c, names in PATH_ENTRY_POINTS:
        for n in names:
            out[c + '.' + n] = params_of(one(kc[c], n), c + '.' + n)
    return out


if __name__ == '__main__':
    import sys
    print(generate(sys.argv[1])['GenFields.v'])
