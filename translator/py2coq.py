"""translator/py2coq.py — fail-closed translation of a small fragment of Python into Gallina (Lib/Py.v).

Fragment: a function whose body consists of a docstring, whitelisted type guards
(`if not isinstance(...): raise`), assignments to simple names, augmented assignment (+=), if/elif/else,
return, raise; expressions over int / bytes / bool: constants, names, + - * // % & | ^ << >>, comparisons,
and/or/not, len(), abs(), x.bit_length(), x.to_bytes(n, order[=byteorder]), int.from_bytes(b, order),
b[i], b[lo:hi], b[::-1], bytes concatenation, conditional expressions, tuples (return only), calls to other
translated functions.  Anything else raises Untranslatable(reason) — the caller aborts generation.

Python evaluates operands left to right; every partial operation (to_bytes, indexing, calls) is hoisted into an
option-monad bind in evaluation order, so exceptions are modelled as None.

Second set (used by gen_funcs2.py; semantics in coq/Lib/Py2.v) — all of it is reached only where the first set
raised Untranslatable, so the output for the first set is unchanged:
  str values (list of code points; literals, +, * int, slices, len), int lists (+, len, l[i], l[a:b]),
  `x in [literals]`, list comprehensions over a str / list / bytes (pure int element) or over range(literal)
  (unrolled), ord() of a str element, `a, b = divmod(x, literal)`, a ** b, pow(a, e, m) with an exponent that is
  statically a non-negative literal sum, bytes.lstrip(literal), keyword / default arguments of translated callees,
  module-level int constants (value read from the imported module by the caller and passed in Fn.globals),
  methods (Fn.cls) whose `self.x` reads are declared parameters (Fn.attrs; any store to self.x is refused),
  a declared leading statement list that is skipped (Fn.skip_first: exact source text + the types it establishes),
  a statement range instead of the whole body (Fn.outputs: the final `return` is replaced by the tuple of the
  named variables), and if-statements translated as a join (Fn.join_ifs) instead of duplicating the continuation.
"""
import ast


class Untranslatable(Exception):
    pass


INT, BYTES, BOOL, INTS = 'int', 'bytes', 'bool', 'ints'
STR, CHAR = 'str', 'char'     # str = list of code points; char = one element of a str (its code point)


class Fn:
    def __init__(self, name, args, ret, coq_name=None, partial=True, while_fuel=None, cls=None, attrs=None,
                 globals_=None, skip_first=None, outputs=None, join_ifs=False, start_at=None, range_inputs=None,
                 end_before=None):
        self.name, self.args, self.ret, self.partial = name, args, ret, partial
        self.while_fuel = list(while_fuel or [])   # Python expressions (int) bounding the iterations of each while loop, in order
        self.coq_name = coq_name or 'gen_' + (cls + '_' if cls else '') + name
        self.cls = cls                              # class name when the function is a method
        self.attrs = list(attrs or [])              # [(attribute, type)]: `self.attribute` reads become parameters self_attribute
        self.globals = dict(globals_ or {})         # module-level int constants: name -> value (filled in by the caller)
        self.skip_first = list(skip_first or [])    # [(exact source text of a leading statement, {variable: type it establishes})]
        self.outputs = outputs                      # statement range: variables returned in place of the final `return`
        self.join_ifs = join_ifs
        # a statement range in the middle of a body: it starts at the first top-level `start_at = ...` assignment
        # with exactly the variables range_inputs [(name, type)] in scope (their types at that point are DECLARED,
        # not checked: the statements before are not translated) and ends before the top-level statement whose
        # source text is end_before (or at the final return when end_before is None)
        self.start_at, self.range_inputs, self.end_before = start_at, list(range_inputs or []), end_before
        self.defaults = {}                          # parameter -> ast of its default value (filled in by translate_function)


COQ_TY = {INT: 'Z', BYTES: 'bytes', BOOL: 'bool', INTS: '(list Z)', STR: '(list Z)', CHAR: 'Z'}


def coq_type(t):
    if isinstance(t, tuple):
        return '(' + ' * '.join(coq_type(x) for x in t) + ')'
    return COQ_TY[t]


class Tr:
    def __init__(self, fns, env):
        self.fns = fns          # name -> Fn (translated functions callable from here)
        self.env = dict(env)    # variable -> type
        self.counter = 0
        self.consts = {}        # loop variables of unrolled range() loops -> literal
        self.static_len = {}    # list variables assigned a literal -> length
        self.while_fuel = []
        self.attrs = {}         # self.<attr> -> type
        self.globals = {}       # module-level int constants -> value
        self.static_int = {}    # variables assigned an int literal in straight-line code -> value
        self.join_ifs = False

    def static_eval(self, e):
        """value of an int expression built from literals, unrolled loop variables and variables last assigned a
        literal; None when it cannot be determined"""
        if isinstance(e, ast.Constant) and isinstance(e.value, int) and not isinstance(e.value, bool):
            return e.value
        if isinstance(e, ast.Name):
            if e.id in self.consts:
                return self.consts[e.id]
            if e.id in self.env:
                return self.static_int.get(e.id)
            return self.globals.get(e.id)
        if isinstance(e, ast.BinOp) and isinstance(e.op, (ast.Add, ast.Sub, ast.Mult)):
            a, b = self.static_eval(e.left), self.static_eval(e.right)
            if a is None or b is None:
                return None
            return a + b if isinstance(e.op, ast.Add) else a - b if isinstance(e.op, ast.Sub) else a * b
        return None

    def fresh(self):
        self.counter += 1
        return 't%d' % self.counter

    # ---------------------------------------------------------------- expressions
    def expr(self, e):
        """returns (binds, term, type); binds = [(name, option_term)] in evaluation order"""
        if isinstance(e, ast.Constant):
            v = e.value
            if isinstance(v, bool):
                return [], 'true' if v else 'false', BOOL
            if isinstance(v, int):
                return [], ('(%d)' % v) if v < 0 else str(v), INT
            if isinstance(v, bytes):
                return [], '[' + '; '.join('x%02x' % b for b in v) + ']', BYTES
            if isinstance(v, str):
                return [], '[' + '; '.join(str(ord(c)) for c in v) + ']', STR
            raise Untranslatable('constant %r' % (v,))
        if isinstance(e, ast.Name) and e.id in self.consts:
            return [], str(self.consts[e.id]), INT
        if isinstance(e, ast.List):
            terms = []
            for el in e.elts:
                b, t, y = self.expr(el)
                if b or y != INT:
                    raise Untranslatable('list literal element')
                terms.append(t)
            return [], '[' + '; '.join(terms) + ']', INTS
        if isinstance(e, ast.Name):
            if e.id not in self.env:
                if e.id in self.globals:
                    v = self.globals[e.id]
                    return [], ('(%d)' % v) if v < 0 else str(v), INT
                raise Untranslatable('unknown name ' + e.id)
            return [], e.id, self.env[e.id]
        if isinstance(e, ast.Attribute) and isinstance(e.value, ast.Name) and e.value.id == 'self' \
                and 'self' not in self.env and e.attr in self.attrs and isinstance(e.ctx, ast.Load):
            return [], 'self_' + e.attr, self.attrs[e.attr]
        if isinstance(e, ast.ListComp):
            return self.listcomp(e)
        if isinstance(e, ast.UnaryOp):
            b, t, ty = self.expr(e.operand)
            if isinstance(e.op, ast.Not):
                return b, '(negb %s)' % self.as_bool(t, ty), BOOL
            if isinstance(e.op, ast.USub) and ty == INT:
                return b, '(- %s)' % t, INT
            raise Untranslatable('unary op')
        if isinstance(e, ast.BinOp):
            b1, t1, y1 = self.expr(e.left)
            b2, t2, y2 = self.expr(e.right)
            op = type(e.op)
            if y1 == BYTES and y2 == BYTES and op is ast.Add:
                return b1 + b2, '(%s ++ %s)' % (t1, t2), BYTES
            if y1 == INT and y2 == INT:
                table = {ast.Add: '(%s + %s)', ast.Sub: '(%s - %s)', ast.Mult: '(%s * %s)',
                         ast.FloorDiv: '(%s / %s)', ast.Mod: '(%s mod %s)', ast.BitAnd: '(Z.land %s %s)',
                         ast.BitOr: '(Z.lor %s %s)', ast.BitXor: '(Z.lxor %s %s)',
                         ast.LShift: '(Z.shiftl %s %s)', ast.RShift: '(Z.shiftr %s %s)'}
                if op in table:
                    # Python // and % with a non-positive divisor differ from Coq's: only literal positive divisors
                    if op in (ast.FloorDiv, ast.Mod) and not (isinstance(e.right, ast.Constant) and e.right.value > 0):
                        raise Untranslatable('division by a non-literal')
                    return b1 + b2, table[op] % (t1, t2), INT
                if op is ast.Pow:
                    n = self.fresh()
                    return b1 + b2 + [(n, 'py_pow %s %s' % (t1, t2))], n, INT
            if y1 == y2 and y1 in (INTS, STR) and op is ast.Add:
                return b1 + b2, '(%s ++ %s)' % (t1, t2), y1
            if y1 == STR and y2 == INT and op is ast.Mult:
                return b1 + b2, '(py_lrepeat %s %s)' % (t1, t2), STR
            raise Untranslatable('binary op %s on %s,%s' % (op.__name__, y1, y2))
        if isinstance(e, ast.BoolOp):
            parts = [self.expr(v) for v in e.values]
            if any(p[0] for p in parts[1:]):
                raise Untranslatable('partial operation under short-circuit operator')
            opn = 'andb' if isinstance(e.op, ast.And) else 'orb'
            t = self.as_bool(parts[0][1], parts[0][2])
            for p in parts[1:]:
                t = '(%s %s %s)' % (opn, t, self.as_bool(p[1], p[2]))
            return parts[0][0], t, BOOL
        if isinstance(e, ast.Compare):
            binds, terms = [], []
            first = self.expr(e.left)
            binds += first[0]
            cur = first
            out = None
            for op, right in zip(e.ops, e.comparators):
                if isinstance(op, (ast.In, ast.NotIn)) and not (
                        isinstance(right, ast.List) and right.elts and all(
                            isinstance(x, ast.Constant) and isinstance(x.value, int) and not isinstance(x.value, bool)
                            for x in right.elts)):
                    raise Untranslatable('membership test other than int in [literals]')
                if isinstance(op, (ast.Is, ast.IsNot)):
                    # a value of the typed fragment is never None (a callee's None result is already "no result")
                    if len(e.ops) != 1 or not (isinstance(right, ast.Constant) and right.value is None):
                        raise Untranslatable('identity test other than `x is None`')
                    return binds, 'false' if isinstance(op, ast.Is) else 'true', BOOL
                r = self.expr(right)
                if r[0] and out is not None:
                    raise Untranslatable('partial operation in the tail of a chained comparison')
                binds += r[0]
                c = self.compare(type(op), cur, r)
                out = c if out is None else '(andb %s %s)' % (out, c)
                cur = r
            return binds, out, BOOL
        if isinstance(e, ast.IfExp):
            bt, tt, yt = self.expr(e.test)
            tt = self.as_bool(tt, yt)
            b1, t1, y1 = self.expr(e.body)
            b2, t2, y2 = self.expr(e.orelse)
            if b1 or b2 or y1 != y2:
                raise Untranslatable('conditional expression with partial branches')
            return bt, '(if %s then %s else %s)' % (tt, t1, t2), y1
        if isinstance(e, ast.Subscript):
            bv, tv, yv = self.expr(e.value)
            if yv == INTS and not isinstance(e.slice, ast.Slice):
                bi, ti, yi = self.expr(e.slice)
                if bi or yi != INT or not ti.isdigit() or not isinstance(e.value, ast.Name) \
                        or int(ti) >= self.static_len.get(e.value.id, 0):
                    if yi != INT:
                        raise Untranslatable('list index must be a literal inside a literal list')
                    n = self.fresh()
                    return bv + bi + [(n, 'py_lindex %s %s' % (tv, ti))], n, INT
                return bv, '(nth %s %s 0)' % (ti, tv), INT
            if yv in (INTS, STR) and isinstance(e.slice, ast.Slice) and e.slice.step is None:
                binds = list(bv)
                lo = hi = 'None'
                if e.slice.lower is not None:
                    b, t, y = self.expr(e.slice.lower)
                    if y != INT:
                        raise Untranslatable('slice bound')
                    binds += b
                    lo = '(Some %s)' % t
                if e.slice.upper is not None:
                    b, t, y = self.expr(e.slice.upper)
                    if y != INT:
                        raise Untranslatable('slice bound')
                    binds += b
                    hi = '(Some %s)' % t
                return binds, '(py_lslice %s %s %s)' % (tv, lo, hi), yv
            if yv != BYTES:
                raise Untranslatable('subscript of non-bytes')
            s = e.slice
            if isinstance(s, ast.Slice):
                if s.step is not None:
                    if (s.lower is None and s.upper is None and isinstance(s.step, ast.UnaryOp)
                            and isinstance(s.step.op, ast.USub) and isinstance(s.step.operand, ast.Constant)
                            and s.step.operand.value == 1):
                        return bv, '(py_reverse %s)' % tv, BYTES
                    raise Untranslatable('slice step')
                binds = list(bv)
                lo = hi = 'None'
                if s.lower is not None:
                    b, t, y = self.expr(s.lower)
                    binds += b
                    lo = '(Some %s)' % t
                if s.upper is not None:
                    b, t, y = self.expr(s.upper)
                    binds += b
                    hi = '(Some %s)' % t
                return binds, '(py_slice %s %s %s)' % (tv, lo, hi), BYTES
            bi, ti, yi = self.expr(s)
            n = self.fresh()
            return bv + bi + [(n, 'py_index %s %s' % (tv, ti))], n, INT
        if isinstance(e, ast.Call):
            f = e.func
            if isinstance(f, ast.Name) and f.id == 'len' and len(e.args) == 1:
                b, t, y = self.expr(e.args[0])
                if y in (INTS, STR):
                    return b, '(py_llen %s)' % t, INT
                if y != BYTES:
                    raise Untranslatable('len of non-bytes')
                return b, '(py_len %s)' % t, INT
            if isinstance(f, ast.Name) and f.id == 'abs' and len(e.args) == 1:
                b, t, y = self.expr(e.args[0])
                return b, '(Z.abs %s)' % t, INT
            if isinstance(f, ast.Name) and f.id == 'bytes' and len(e.args) == 1 and isinstance(e.args[0], ast.List) \
                    and len(e.args[0].elts) == 1:
                b, t, y = self.expr(e.args[0].elts[0])
                n = self.fresh()
                return b + [(n, 'py_byte1 %s' % t)], n, BYTES
            if isinstance(f, ast.Name) and f.id == 'bytes' and len(e.args) == 1 and not e.keywords and 'bytes' not in self.env \
                    and not isinstance(e.args[0], (ast.List, ast.Constant)):
                b, t, y = self.expr(e.args[0])
                if y != INTS:
                    raise Untranslatable('bytes() of something that is not a list of ints')
                n = self.fresh()
                return b + [(n, 'py_bytes_of %s' % t)], n, BYTES
            if isinstance(f, ast.Name) and f.id == 'normalize_var' and len(e.args) == 1:
                # encoding.normalize_var is the identity on bytes (the model is typed: argument is bytes)
                b, t, y = self.expr(e.args[0])
                if y != BYTES:
                    raise Untranslatable('normalize_var of non-bytes')
                return b, t, y
            if isinstance(f, ast.Name) and f.id == 'ord' and len(e.args) == 1 and not e.keywords and 'ord' not in self.env:
                b, t, y = self.expr(e.args[0])
                if y != CHAR:
                    raise Untranslatable('ord of something that is not an element of a str')
                return b, t, INT
            if isinstance(f, ast.Name) and f.id == 'pow' and len(e.args) == 3 and not e.keywords and 'pow' not in self.env:
                ex = self.static_eval(e.args[1])
                if ex is None or ex < 0:
                    raise Untranslatable('pow(b, e, m): the exponent is not statically a non-negative literal')
                binds, terms = [], []
                for a in e.args:
                    b, t, y = self.expr(a)
                    if y != INT:
                        raise Untranslatable('pow argument type')
                    binds += b
                    terms.append(t)
                n = self.fresh()
                return binds + [(n, 'py_pow3 %s' % ' '.join(terms))], n, INT
            if isinstance(f, ast.Name) and f.id in self.fns and f.id not in self.env \
                    and (e.keywords or len(e.args) != len(self.fns[f.id].args)):
                fn = self.fns[f.id]
                names = [a for a, _ in fn.args]
                given = {}
                if len(e.args) > len(names):
                    raise Untranslatable('too many arguments for ' + f.id)
                for a, nm in zip(e.args, names):
                    given[nm] = a
                for kw in e.keywords:
                    if kw.arg is None or kw.arg not in names or kw.arg in given:
                        raise Untranslatable('keyword argument of ' + f.id)
                    given[kw.arg] = kw.value
                # Python evaluates positional arguments, then keyword arguments, in source order; defaults were
                # evaluated at definition time and must be literals
                order = [nm for _, nm in zip(e.args, names)] + [kw.arg for kw in e.keywords]
                binds, val = [], {}
                for nm in order:
                    b, t, y = self.expr(given[nm])
                    if y != dict(fn.args)[nm]:
                        raise Untranslatable('argument type of %s.%s' % (f.id, nm))
                    binds += b
                    val[nm] = t
                for nm in names:
                    if nm not in val:
                        d = fn.defaults.get(nm)
                        if not isinstance(d, ast.Constant):
                            raise Untranslatable('missing argument %s of %s without a literal default' % (nm, f.id))
                        b, t, y = Tr({}, {}).expr(d)
                        if b or y != dict(fn.args)[nm]:
                            raise Untranslatable('default of %s.%s' % (f.id, nm))
                        val[nm] = t
                call = '%s %s' % (fn.coq_name, ' '.join(val[nm] for nm in names))
                if fn.partial:
                    n = self.fresh()
                    return binds + [(n, call)], n, fn.ret
                return binds, '(%s)' % call, fn.ret
            if isinstance(f, ast.Name) and f.id in self.fns:
                fn = self.fns[f.id]
                binds, terms = [], []
                for a in e.args:
                    b, t, y = self.expr(a)
                    binds += b
                    terms.append(t)
                call = '%s %s' % (fn.coq_name, ' '.join(terms))
                if fn.partial:
                    n = self.fresh()
                    return binds + [(n, call)], n, fn.ret
                return binds, '(%s)' % call, fn.ret
            if isinstance(f, ast.Attribute):
                if f.attr == 'lstrip' and len(e.args) == 1 and not e.keywords and isinstance(e.args[0], ast.Constant) \
                        and isinstance(e.args[0].value, bytes):
                    b, t, y = self.expr(f.value)
                    if y != BYTES:
                        raise Untranslatable('lstrip of non-bytes')
                    return b, '(py_lstrip %s %s)' % (self.expr(e.args[0])[1], t), BYTES
                if f.attr == 'bit_length' and not e.args:
                    b, t, y = self.expr(f.value)
                    return b, '(py_bit_length %s)' % t, INT
                if f.attr == 'to_bytes':
                    b, t, y = self.expr(f.value)
                    args = list(e.args)
                    order = None
                    for kw in e.keywords:
                        if kw.arg == 'byteorder':
                            order = kw.value
                        else:
                            raise Untranslatable('to_bytes keyword')
                    if len(args) == 2:
                        order = args[1]
                    if order is None or not isinstance(order, ast.Constant) or order.value not in ('big', 'little'):
                        raise Untranslatable('to_bytes byteorder')
                    bl, tl, yl = self.expr(args[0])
                    n = self.fresh()
                    return b + bl + [(n, 'py_to_bytes %s %s %s' % (tl, 'true' if order.value == 'little' else 'false', t))], n, BYTES
                if f.attr == 'from_bytes' and isinstance(f.value, ast.Name) and f.value.id == 'int':
                    b, t, y = self.expr(e.args[0])
                    order = e.args[1] if len(e.args) > 1 else None
                    for kw in e.keywords:
                        if kw.arg == 'byteorder':
                            order = kw.value
                    if order is None or not isinstance(order, ast.Constant):
                        raise Untranslatable('from_bytes byteorder')
                    return b, '(py_from_bytes %s %s)' % ('true' if order.value == 'little' else 'false', t), INT
            raise Untranslatable('call ' + ast.dump(f)[:60])
        raise Untranslatable('expression ' + type(e).__name__)

    def listcomp(self, e):
        """[elt for x in it]: one generator, no condition.  Over range(literal): unrolled, the element may be partial
        (binds in evaluation order).  Over a str / int list / bytes value: map of a pure int element."""
        if len(e.generators) != 1:
            raise Untranslatable('list comprehension with several generators')
        g = e.generators[0]
        if g.ifs or g.is_async or not isinstance(g.target, ast.Name):
            raise Untranslatable('list comprehension shape')
        x = g.target.id
        it = g.iter
        saved_env, saved_consts = dict(self.env), dict(self.consts)
        try:
            if isinstance(it, ast.Call) and isinstance(it.func, ast.Name) and it.func.id == 'range' and 'range' not in self.env \
                    and len(it.args) == 1 and not it.keywords and isinstance(it.args[0], ast.Constant) \
                    and isinstance(it.args[0].value, int) and 0 <= it.args[0].value <= 64:
                self.env.pop(x, None)
                binds, terms = [], []
                for k in range(it.args[0].value):
                    self.consts[x] = k
                    b, t, y = self.expr(e.elt)
                    if y != INT:
                        raise Untranslatable('list comprehension element type')
                    binds += b
                    terms.append(t)
                return binds, '[' + '; '.join(terms) + ']', INTS
            bi, ti, yi = self.expr(it)
            if yi not in (STR, INTS, BYTES):
                raise Untranslatable('list comprehension over ' + str(yi))
            self.consts.pop(x, None)
            self.env[x] = CHAR if yi == STR else INT
            b, t, y = self.expr(e.elt)
            if b or y != INT:
                raise Untranslatable('list comprehension element must be a total int expression')
            if yi == BYTES:
                return bi, '(map (fun %s__b => (let %s := bz %s__b in %s)) %s)' % (x, x, x, t, ti), INTS
            return bi, '(map (fun %s => %s) %s)' % (x, t, ti), INTS
        finally:
            self.env, self.consts = saved_env, saved_consts

    def as_bool(self, t, ty):
        if ty == BOOL:
            return t
        if ty == INT:
            return '(negb (%s =? 0))' % t
        if ty == BYTES:
            return '(negb (py_len %s =? 0))' % t
        if ty == INTS:
            return '(negb (Nat.eqb (length %s) 0))' % t
        if ty == STR:
            return '(negb (py_llen %s =? 0))' % t
        raise Untranslatable('truthiness of ' + str(ty))

    def compare(self, op, l, r):
        (_, t1, y1), (_, t2, y2) = l, r
        if op in (ast.In, ast.NotIn):
            # the caller has checked that the right operand is a list display of int literals
            if y1 == INT and y2 == INTS and not r[0]:
                c = '(py_in %s %s)' % (t1, t2)
                return c if op is ast.In else '(negb %s)' % c
            raise Untranslatable('membership test other than int in [literals]')
        if y1 == INT and y2 == INT:
            table = {ast.Lt: '(%s <? %s)', ast.LtE: '(%s <=? %s)', ast.Gt: '(%s >? %s)', ast.GtE: '(%s >=? %s)',
                     ast.Eq: '(%s =? %s)', ast.NotEq: '(negb (%s =? %s))'}
            if op in table:
                return table[op] % (t1, t2)
        if y1 == BYTES and y2 == BYTES and op in (ast.Eq, ast.NotEq):
            c = '(py_bytes_eqb %s %s)' % (t1, t2)
            return c if op is ast.Eq else '(negb %s)' % c
        raise Untranslatable('comparison %s on %s,%s' % (op.__name__, y1, y2))

    def carried(self, body):
        names = []
        for node in body:
            for n in ast.walk(node):
                tgt = None
                if isinstance(n, ast.Assign) and len(n.targets) == 1 and isinstance(n.targets[0], ast.Tuple):
                    for el in n.targets[0].elts:
                        if isinstance(el, ast.Name) and el.id in self.env and el.id not in names:
                            names.append(el.id)
                if isinstance(n, ast.Assign) and len(n.targets) == 1 and isinstance(n.targets[0], ast.Name):
                    tgt = n.targets[0].id
                elif isinstance(n, ast.AugAssign) and isinstance(n.target, ast.Name):
                    tgt = n.target.id
                elif isinstance(n, ast.Call) and isinstance(n.func, ast.Attribute) and n.func.attr == 'append' \
                        and isinstance(n.func.value, ast.Name):
                    tgt = n.func.value.id
                if tgt and tgt in self.env and tgt not in names:
                    names.append(tgt)
        return names

    def tuple_of(self, vs):
        if not vs:
            return 'tt'
        return vs[0] if len(vs) == 1 else '(' + ', '.join(vs) + ')'

    def pattern_of(self, vs):
        return vs[0] if len(vs) == 1 else "'(" + ', '.join(vs) + ')'

    def type_of(self, vs):
        ts = [coq_type(self.env[v]) for v in vs]
        return ts[0] if len(ts) == 1 else '(' + ' * '.join(ts) + ')'

    @staticmethod
    def wrap(binds, body):
        for n, t in reversed(binds):
            body = '(%s <- %s ;; %s)' % (n, t, body)
        return body

    # ---------------------------------------------------------------- statements
    def stmts(self, body, ret):
        if not body:
            raise Untranslatable('control reaches the end of the function without return')
        s, rest = body[0], body[1:]
        if isinstance(s, ast.Expr) and isinstance(s.value, ast.Constant) and isinstance(s.value.value, str):
            return self.stmts(rest, ret)
        if isinstance(s, _SetConst):
            saved = dict(self.consts)
            self.consts[s.name] = s.k
            try:
                return self.stmts(rest, ret)
            finally:
                self.consts = saved
        if isinstance(s, _DelConst):
            saved = dict(self.consts)
            self.consts.pop(s.name, None)
            try:
                return self.stmts(rest, ret)
            finally:
                self.consts = saved
        if isinstance(s, _Yield):
            if rest:
                raise Untranslatable('internal: yield not last')
            for v in s.vars:
                if v not in self.env:
                    raise Untranslatable('variable %s is not defined on every path to the end of the block' % v)
            return 'Some ' + self.tuple_of(s.vars)
        if isinstance(s, ast.Return) and isinstance(s.value, ast.Constant) and s.value.value is None:
            return 'None'      # Python None result = no result
        if isinstance(s, ast.Expr) and isinstance(s.value, ast.Call) and isinstance(s.value.func, ast.Attribute) \
                and s.value.func.attr == 'append' and isinstance(s.value.func.value, ast.Name) \
                and self.env.get(s.value.func.value.id) == INTS and len(s.value.args) == 1:
            name = s.value.func.value.id
            b, t, y = self.expr(s.value.args[0])
            if y != INT:
                raise Untranslatable('append of non-int')
            self.static_len.pop(name, None)
            return self.wrap(b, '(let %s := (%s ++ [%s]) in %s)' % (name, name, t, self.stmts(rest, ret)))
        if isinstance(s, ast.For):
            if s.orelse or not isinstance(s.target, ast.Name):
                raise Untranslatable('for loop shape')
            it = s.iter
            if isinstance(it, ast.Call) and isinstance(it.func, ast.Name) and it.func.id == 'range' and len(it.args) == 1 \
                    and isinstance(it.args[0], ast.Constant) and isinstance(it.args[0].value, int) and 0 <= it.args[0].value <= 64:
                flat = []
                for k in range(it.args[0].value):
                    flat.append(_SetConst(s.target.id, k))
                    flat += list(s.body)
                flat.append(_DelConst(s.target.id))
                return self.stmts(flat + rest, ret)
            bi, ti, yi = self.expr(it)
            if yi not in (INTS, BYTES):
                raise Untranslatable('for loop over ' + str(yi))
            carried = self.carried(s.body)
            if not carried:
                raise Untranslatable('loop without carried variables')
            for v in carried:
                self.static_int.pop(v, None)
            saved = dict(self.env)
            self.env[s.target.id] = INT
            elem = s.target.id if yi == INTS else '(bz %s)' % s.target.id
            body = self.stmts(list(s.body) + [_Yield(carried)], ret)
            self.env = saved
            for v in carried:
                self.static_len.pop(v, None)
            pat = self.pattern_of(carried)
            fn = '(fun st__ %s => st0__ <- st__ ;; (let %s := st0__ in %s))' % (
                s.target.id if yi == INTS else s.target.id + '__b', pat,
                body if yi == INTS else '(let %s := bz %s__b in %s)' % (s.target.id, s.target.id, body))
            cont = self.stmts(rest, ret)
            return self.wrap(bi, '(match fold_left %s %s (Some %s) with Some %s => %s | None => None end)' % (
                fn, ti, self.tuple_of(carried), self.tuple_of(carried), cont))
        if isinstance(s, ast.While):
            if s.orelse or not self.while_fuel:
                raise Untranslatable('while loop without a declared fuel bound')
            fuel_src = self.while_fuel.pop(0)
            bf, tf, yf = self.expr(ast.parse(fuel_src, mode='eval').body)
            if bf or yf != INT:
                raise Untranslatable('while fuel expression')
            carried = self.carried(s.body)
            for v in carried:
                self.static_int.pop(v, None)
            bc, tc, yc = self.expr(s.test)
            if bc:
                raise Untranslatable('partial operation in while condition')
            tc = self.as_bool(tc, yc)
            body = self.stmts(list(s.body) + [_Yield(carried)], ret)
            for v in carried:
                self.static_len.pop(v, None)
            pat = self.pattern_of(carried)
            loop = ('((fix loop__ (fuel__ : nat) (st__ : %s) {struct fuel__} : option %s := match fuel__ with O => None | S f__ => '
                    'let %s := st__ in if %s then (match %s with Some st1__ => loop__ f__ st1__ | None => None end) else Some st__ end) '
                    '(S (Z.to_nat %s)) %s)') % (self.type_of(carried), self.type_of(carried), pat, tc, body, tf, self.tuple_of(carried))
            cont = self.stmts(rest, ret)
            return '(match %s with Some %s => %s | None => None end)' % (loop, self.tuple_of(carried), cont)
        if isinstance(s, ast.Return):
            if isinstance(s.value, ast.Tuple):
                if not isinstance(ret, tuple) or len(ret) != len(s.value.elts):
                    raise Untranslatable('tuple return shape')
                binds, terms = [], []
                for el, ty in zip(s.value.elts, ret):
                    b, t, y = self.expr(el)
                    if y != ty:
                        raise Untranslatable('return type')
                    binds += b
                    terms.append(t)
                return self.wrap(binds, 'Some (%s)' % ', '.join(terms))
            b, t, y = self.expr(s.value)
            if y != ret:
                raise Untranslatable('return type %s, expected %s' % (y, ret))
            return self.wrap(b, 'Some %s' % t)
        if isinstance(s, ast.Raise):
            return 'None'
        if isinstance(s, ast.Assign) and len(s.targets) == 1 and isinstance(s.targets[0], ast.Tuple):
            # a, b = divmod(x, <positive literal>)
            tg, v = s.targets[0], s.value
            if not (len(tg.elts) == 2 and all(isinstance(x, ast.Name) for x in tg.elts) and tg.elts[0].id != tg.elts[1].id
                    and isinstance(v, ast.Call) and isinstance(v.func, ast.Name) and v.func.id == 'divmod'
                    and 'divmod' not in self.env and len(v.args) == 2 and not v.keywords
                    and isinstance(v.args[1], ast.Constant) and isinstance(v.args[1].value, int)
                    and not isinstance(v.args[1].value, bool) and v.args[1].value > 0):
                raise Untranslatable('tuple assignment other than a, b = divmod(x, positive literal)')
            b, t, y = self.expr(v.args[0])
            if y != INT:
                raise Untranslatable('divmod argument type')
            d = str(v.args[1].value)
            qn, rn = tg.elts[0].id, tg.elts[1].id
            saved = dict(self.env)
            saved_len, saved_int = dict(self.static_len), dict(self.static_int)
            for nm in (qn, rn):
                self.env[nm] = INT
                self.static_len.pop(nm, None)
                self.static_int.pop(nm, None)
                if nm in self.consts:
                    raise Untranslatable('assignment to the variable of an unrolled loop')
            r = self.wrap(b, "(let '(%s, %s) := ((%s / %s), (%s mod %s)) in %s)" % (qn, rn, t, d, t, d, self.stmts(rest, ret)))
            self.env, self.static_len, self.static_int = saved, saved_len, saved_int
            return r
        if isinstance(s, ast.Assign):
            if len(s.targets) != 1 or not isinstance(s.targets[0], ast.Name):
                raise Untranslatable('assignment target')
            name = s.targets[0].id
            if name in self.consts:
                raise Untranslatable('assignment to the variable of an unrolled loop')
            b, t, y = self.expr(s.value)
            saved = dict(self.env)
            saved_len = dict(self.static_len)
            saved_int = dict(self.static_int)
            if isinstance(s.value, ast.Constant) and isinstance(s.value.value, int) and not isinstance(s.value.value, bool):
                self.static_int[name] = s.value.value
            else:
                self.static_int.pop(name, None)
            self.env[name] = y
            if isinstance(s.value, ast.List):
                self.static_len[name] = len(s.value.elts)
            else:
                self.static_len.pop(name, None)
            r = self.wrap(b, '(let %s := %s in %s)' % (name, t, self.stmts(rest, ret)))
            self.env = saved
            self.static_len = saved_len
            self.static_int = saved_int
            return r
        if isinstance(s, ast.AugAssign):
            if not isinstance(s.target, ast.Name) or not isinstance(s.op, (ast.Add, ast.Sub, ast.BitXor, ast.BitOr, ast.BitAnd)):
                raise Untranslatable('augmented assignment')
            new = ast.Assign(targets=[ast.Name(id=s.target.id, ctx=ast.Store())],
                             value=ast.BinOp(left=ast.Name(id=s.target.id, ctx=ast.Load()), op=s.op, right=s.value))
            return self.stmts([new] + rest, ret)
        if isinstance(s, ast.If):
            # whitelisted type guard: `if not isinstance(x, T): raise ...` is dropped (the model is typed)
            if (isinstance(s.test, ast.UnaryOp) and isinstance(s.test.op, ast.Not) and isinstance(s.test.operand, ast.Call)
                    and isinstance(s.test.operand.func, ast.Name) and s.test.operand.func.id == 'isinstance'
                    and len(s.body) == 1 and isinstance(s.body[0], ast.Raise) and not s.orelse):
                return self.stmts(rest, ret)
            if self.join_ifs and rest and not any(isinstance(n, ast.Return) for part in (s.body, s.orelse)
                                                   for st in part for n in ast.walk(st)):
                # no branch returns: the branches compute the new values of the variables they assign (None when
                # they raise) and the continuation is emitted once
                b, t, y = self.expr(s.test)
                t = self.as_bool(t, y)
                carried = self.carried(list(s.body) + list(s.orelse))
                saved = dict(self.env)
                saved_len, saved_int = dict(self.static_len), dict(self.static_int)
                then = self.stmts(list(s.body) + [_Yield(carried)], ret)
                self.env, self.static_len, self.static_int = dict(saved), dict(saved_len), dict(saved_int)
                els = self.stmts(list(s.orelse) + [_Yield(carried)], ret)
                self.env, self.static_len, self.static_int = saved, saved_len, saved_int
                for v in carried:
                    self.static_len.pop(v, None)
                    self.static_int.pop(v, None)
                cont = self.stmts(rest, ret)
                return self.wrap(b, '(match (if %s then %s else %s) with Some %s => %s | None => None end)' % (
                    t, then, els, self.tuple_of(carried) if carried else '_', cont))
            b, t, y = self.expr(s.test)
            t = self.as_bool(t, y)
            saved = dict(self.env)
            then = self.stmts(list(s.body) + rest, ret)
            self.env = dict(saved)
            els = self.stmts(list(s.orelse) + rest, ret)
            self.env = saved
            return self.wrap(b, '(if %s then %s else %s)' % (t, then, els))
        raise Untranslatable('statement ' + type(s).__name__)


class _SetConst:
    def __init__(self, name, k):
        self.name, self.k = name, k


class _DelConst:
    def __init__(self, name):
        self.name = name


class _Yield:
    def __init__(self, vars):
        self.vars = vars


ALLOWED_DECORATORS = ('property', 'staticmethod')


def find_function(src_tree, fn):
    scope = src_tree.body
    if fn.cls:
        classes = [n for n in src_tree.body if isinstance(n, ast.ClassDef) and n.name == fn.cls]
        if len(classes) != 1:
            raise Untranslatable('class %s not found exactly once' % fn.cls)
        scope = classes[0].body
    nodes = [n for n in scope if isinstance(n, ast.FunctionDef) and n.name == fn.name]
    if fn.cls and len(nodes) != 1:
        raise Untranslatable('method %s.%s not found exactly once' % (fn.cls, fn.name))
    if not nodes:
        raise Untranslatable('function %s not found' % fn.name)
    return nodes[-1]


def translate_function(src_tree, fn, fns):
    node = find_function(src_tree, fn)
    decos = [d.id if isinstance(d, ast.Name) else None for d in node.decorator_list]
    if any(d not in ALLOWED_DECORATORS for d in decos):
        raise Untranslatable('decorator on ' + fn.name)
    params = [a.arg for a in node.args.args]
    if fn.cls and 'staticmethod' not in decos:
        if not params or params[0] != 'self':
            raise Untranslatable('method %s without self' % fn.name)
        params = params[1:]
    if params != [a for a, _ in fn.args] or node.args.vararg or node.args.kwarg or node.args.kwonlyargs \
            or getattr(node.args, 'posonlyargs', None):
        raise Untranslatable('signature of %s changed: %r' % (fn.name, params))
    all_params = [a.arg for a in node.args.args]
    fn.defaults = dict(zip(all_params[len(all_params) - len(node.args.defaults):], node.args.defaults))
    stored = set()
    for n in ast.walk(node):
        if isinstance(n, ast.Name) and isinstance(n.ctx, (ast.Store, ast.Del)):
            stored.add(n.id)
        if isinstance(n, (ast.Global, ast.Nonlocal)):
            raise Untranslatable('global / nonlocal statement in ' + fn.name)
    for g in fn.globals:
        if g in stored or g in all_params:
            raise Untranslatable('module constant %s is rebound inside %s' % (g, fn.name))
    if fn.cls and 'self' in stored:
        raise Untranslatable('self is rebound inside ' + fn.name)
    tr = Tr(fns, dict(fn.args))
    tr.while_fuel = list(fn.while_fuel)
    tr.attrs = dict(fn.attrs) if fn.cls and 'staticmethod' not in decos else {}
    tr.globals = dict(fn.globals)
    tr.join_ifs = fn.join_ifs
    body = list(node.body)
    if fn.skip_first or fn.outputs is not None:
        if body and isinstance(body[0], ast.Expr) and isinstance(body[0].value, ast.Constant) and isinstance(body[0].value.value, str):
            body = body[1:]
        for text, types in fn.skip_first:
            if not body or ast.unparse(body[0]) != text:
                raise Untranslatable('leading statement of %s is not %r' % (fn.name, text))
            body = body[1:]
            tr.env.update(types)
    if fn.start_at is not None:
        idx = [i for i, st in enumerate(body) if isinstance(st, ast.Assign) and len(st.targets) == 1
               and isinstance(st.targets[0], ast.Name) and st.targets[0].id == fn.start_at]
        if not idx:
            raise Untranslatable('%s: no top-level assignment to %s' % (fn.name, fn.start_at))
        body = body[idx[0]:]
        tr.env = dict(fn.range_inputs)
    if fn.end_before is not None:
        idx = [i for i, st in enumerate(body) if not isinstance(st, _Yield) and ast.unparse(st) == fn.end_before]
        if not idx or fn.outputs is None:
            raise Untranslatable('%s: no top-level statement %r' % (fn.name, fn.end_before))
        body = body[:idx[0]]
        if any(isinstance(n, ast.Return) for st in body for n in ast.walk(st)):
            raise Untranslatable('%s: return inside the statement range' % fn.name)
        body = body + [_Yield(list(fn.outputs))]
    elif fn.outputs is not None:
        if not body or not isinstance(body[-1], ast.Return) or any(
                isinstance(n, ast.Return) for st in body[:-1] for n in ast.walk(st)):
            raise Untranslatable('%s: the statement range must end in the only return' % fn.name)
        body = body[:-1] + [_Yield(list(fn.outputs))]
    body = tr.stmts(body, fn.ret)
    if tr.while_fuel:
        raise Untranslatable('unused while fuel declarations in ' + fn.name)
    args = ' '.join('(%s : %s)' % (a, coq_type(t)) for a, t in
                    [('self_' + a, t) for a, t in (fn.attrs if tr.attrs else [])] +
                    (list(fn.range_inputs) if fn.start_at is not None else list(fn.args)))
    return 'Definition %s %s : option %s :=\n  %s.\n' % (fn.coq_name, args, coq_type(fn.ret), body)
