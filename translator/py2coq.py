"""translator/py2coq.py — fail-closed translation of a small fragment of Python into Gallina (Lib/Py.v).

Fragment: a function whose body consists of a docstring, whitelisted type guards
(`if not isinstance(...): raise`), assignments to simple names, augmented assignment (+=), if/elif/else,
return, raise; expressions over int / bytes / bool: constants, names, + - * // % & | ^ << >>, comparisons,
and/or/not, len(), abs(), x.bit_length(), x.to_bytes(n, order[=byteorder]), int.from_bytes(b, order),
b[i], b[lo:hi], b[::-1], bytes concatenation, conditional expressions, tuples (return only), calls to other
translated functions.  Anything else raises Untranslatable(reason) — the caller aborts generation.

Python evaluates operands left to right; every partial operation (to_bytes, indexing, calls) is hoisted into an
option-monad bind in evaluation order, so exceptions are modelled as None.
"""
import ast


class Untranslatable(Exception):
    pass


INT, BYTES, BOOL, INTS = 'int', 'bytes', 'bool', 'ints'


class Fn:
    def __init__(self, name, args, ret, coq_name=None, partial=True, while_fuel=None):
        self.name, self.args, self.ret, self.partial = name, args, ret, partial
        self.while_fuel = list(while_fuel or [])   # Python expressions (int) bounding the iterations of each while loop, in order
        self.coq_name = coq_name or 'gen_' + name


COQ_TY = {INT: 'Z', BYTES: 'bytes', BOOL: 'bool', INTS: '(list Z)'}


def coq_type(t):
    if isinstance(t, tuple):
        return '(' + ' * '.join(coq_type(x) for x in t) + ')'
    return COQ_TY[t]


class Tr:
    def __init__(self, fns, env):
        self.fns = fns          # name -> Fn (translated functions callable from here)
        self.env = dict(env)    # variable -> type
        self.counter = 0
        self.consts = {}        # loop variables of unrolled range() loops -> literal
        self.static_len = {}    # list variables assigned a literal -> length
        self.while_fuel = []

    def fresh(self):
        self.counter += 1
        return 't%d' % self.counter

    # ---------------------------------------------------------------- expressions
    def expr(self, e):
        """returns (binds, term, type); binds = [(name, option_term)] in evaluation order"""
        if isinstance(e, ast.Constant):
            v = e.value
            if isinstance(v, bool):
                return [], 'true' if v else 'false', BOOL
            if isinstance(v, int):
                return [], ('(%d)' % v) if v < 0 else str(v), INT
            if isinstance(v, bytes):
                return [], '[' + '; '.join('x%02x' % b for b in v) + ']', BYTES
            raise Untranslatable('constant %r' % (v,))
        if isinstance(e, ast.Name) and e.id in self.consts:
            return [], str(self.consts[e.id]), INT
        if isinstance(e, ast.List):
            terms = []
            for el in e.elts:
                b, t, y = self.expr(el)
                if b or y != INT:
                    raise Untranslatable('list literal element')
                terms.append(t)
            return [], '[' + '; '.join(terms) + ']', INTS
        if isinstance(e, ast.Name):
            if e.id not in self.env:
                raise Untranslatable('unknown name ' + e.id)
            return [], e.id, self.env[e.id]
        if isinstance(e, ast.UnaryOp):
            b, t, ty = self.expr(e.operand)
            if isinstance(e.op, ast.Not):
                return b, '(negb %s)' % self.as_bool(t, ty), BOOL
            if isinstance(e.op, ast.USub) and ty == INT:
                return b, '(- %s)' % t, INT
            raise Untranslatable('unary op')
        if isinstance(e, ast.BinOp):
            b1, t1, y1 = self.expr(e.left)
            b2, t2, y2 = self.expr(e.right)
            op = type(e.op)
            if y1 == BYTES and y2 == BYTES and op is ast.Add:
                return b1 + b2, '(%s ++ %s)' % (t1, t2), BYTES
            if y1 == INT and y2 == INT:
                table = {ast.Add: '(%s + %s)', ast.Sub: '(%s - %s)', ast.Mult: '(%s * %s)',
                         ast.FloorDiv: '(%s / %s)', ast.Mod: '(%s mod %s)', ast.BitAnd: '(Z.land %s %s)',
                         ast.BitOr: '(Z.lor %s %s)', ast.BitXor: '(Z.lxor %s %s)',
                         ast.LShift: '(Z.shiftl %s %s)', ast.RShift: '(Z.shiftr %s %s)'}
                if op in table:
                    # Python // and % with a non-positive divisor differ from Coq's: only literal positive divisors
                    if op in (ast.FloorDiv, ast.Mod) and not (isinstance(e.right, ast.Constant) and e.right.value > 0):
                        raise Untranslatable('division by a non-literal')
                    return b1 + b2, table[op] % (t1, t2), INT
            raise Untranslatable('binary op %s on %s,%s' % (op.__name__, y1, y2))
        if isinstance(e, ast.BoolOp):
            parts = [self.expr(v) for v in e.values]
            if any(p[0] for p in parts[1:]):
                raise Untranslatable('partial operation under short-circuit operator')
            opn = 'andb' if isinstance(e.op, ast.And) else 'orb'
            t = self.as_bool(parts[0][1], parts[0][2])
            for p in parts[1:]:
                t = '(%s %s %s)' % (opn, t, self.as_bool(p[1], p[2]))
            return parts[0][0], t, BOOL
        if isinstance(e, ast.Compare):
            binds, terms = [], []
            first = self.expr(e.left)
            binds += first[0]
            cur = first
            out = None
            for op, right in zip(e.ops, e.comparators):
                r = self.expr(right)
                binds += r[0]
                c = self.compare(type(op), cur, r)
                out = c if out is None else '(andb %s %s)' % (out, c)
                cur = r
            return binds, out, BOOL
        if isinstance(e, ast.IfExp):
            bt, tt, yt = self.expr(e.test)
            tt = self.as_bool(tt, yt)
            b1, t1, y1 = self.expr(e.body)
            b2, t2, y2 = self.expr(e.orelse)
            if b1 or b2 or y1 != y2:
                raise Untranslatable('conditional expression with partial branches')
            return bt, '(if %s then %s else %s)' % (tt, t1, t2), y1
        if isinstance(e, ast.Subscript):
            bv, tv, yv = self.expr(e.value)
            if yv == INTS and not isinstance(e.slice, ast.Slice):
                bi, ti, yi = self.expr(e.slice)
                if bi or yi != INT or not ti.isdigit() or not isinstance(e.value, ast.Name) \
                        or int(ti) >= self.static_len.get(e.value.id, 0):
                    raise Untranslatable('list index must be a literal inside a literal list')
                return bv, '(nth %s %s 0)' % (ti, tv), INT
            if yv != BYTES:
                raise Untranslatable('subscript of non-bytes')
            s = e.slice
            if isinstance(s, ast.Slice):
                if s.step is not None:
                    if (s.lower is None and s.upper is None and isinstance(s.step, ast.UnaryOp)
                            and isinstance(s.step.op, ast.USub) and isinstance(s.step.operand, ast.Constant)
                            and s.step.operand.value == 1):
                        return bv, '(py_reverse %s)' % tv, BYTES
                    raise Untranslatable('slice step')
                binds = list(bv)
                lo = hi = 'None'
                if s.lower is not None:
                    b, t, y = self.expr(s.lower)
                    binds += b
                    lo = '(Some %s)' % t
                if s.upper is not None:
                    b, t, y = self.expr(s.upper)
                    binds += b
                    hi = '(Some %s)' % t
                return binds, '(py_slice %s %s %s)' % (tv, lo, hi), BYTES
            bi, ti, yi = self.expr(s)
            n = self.fresh()
            return bv + bi + [(n, 'py_index %s %s' % (tv, ti))], n, INT
        if isinstance(e, ast.Call):
            f = e.func
            if isinstance(f, ast.Name) and f.id == 'len' and len(e.args) == 1:
                b, t, y = self.expr(e.args[0])
                if y != BYTES:
                    raise Untranslatable('len of non-bytes')
                return b, '(py_len %s)' % t, INT
            if isinstance(f, ast.Name) and f.id == 'abs' and len(e.args) == 1:
                b, t, y = self.expr(e.args[0])
                return b, '(Z.abs %s)' % t, INT
            if isinstance(f, ast.Name) and f.id == 'bytes' and len(e.args) == 1 and isinstance(e.args[0], ast.List) \
                    and len(e.args[0].elts) == 1:
                b, t, y = self.expr(e.args[0].elts[0])
                n = self.fresh()
                return b + [(n, 'py_byte1 %s' % t)], n, BYTES
            if isinstance(f, ast.Name) and f.id == 'normalize_var' and len(e.args) == 1:
                # encoding.normalize_var is the identity on bytes (the model is typed: argument is bytes)
                b, t, y = self.expr(e.args[0])
                if y != BYTES:
                    raise Untranslatable('normalize_var of non-bytes')
                return b, t, y
            if isinstance(f, ast.Name) and f.id in self.fns:
                fn = self.fns[f.id]
                binds, terms = [], []
                for a in e.args:
                    b, t, y = self.expr(a)
                    binds += b
                    terms.append(t)
                call = '%s %s' % (fn.coq_name, ' '.join(terms))
                if fn.partial:
                    n = self.fresh()
                    return binds + [(n, call)], n, fn.ret
                return binds, '(%s)' % call, fn.ret
            if isinstance(f, ast.Attribute):
                if f.attr == 'bit_length' and not e.args:
                    b, t, y = self.expr(f.value)
                    return b, '(py_bit_length %s)' % t, INT
                if f.attr == 'to_bytes':
                    b, t, y = self.expr(f.value)
                    args = list(e.args)
                    order = None
                    for kw in e.keywords:
                        if kw.arg == 'byteorder':
                            order = kw.value
                        else:
                            raise Untranslatable('to_bytes keyword')
                    if len(args) == 2:
                        order = args[1]
                    if order is None or not isinstance(order, ast.Constant) or order.value not in ('big', 'little'):
                        raise Untranslatable('to_bytes byteorder')
                    bl, tl, yl = self.expr(args[0])
                    n = self.fresh()
                    return b + bl + [(n, 'py_to_bytes %s %s %s' % (tl, 'true' if order.value == 'little' else 'false', t))], n, BYTES
                if f.attr == 'from_bytes' and isinstance(f.value, ast.Name) and f.value.id == 'int':
                    b, t, y = self.expr(e.args[0])
                    order = e.args[1] if len(e.args) > 1 else None
                    for kw in e.keywords:
                        if kw.arg == 'byteorder':
                            order = kw.value
                    if order is None or not isinstance(order, ast.Constant):
                        raise Untranslatable('from_bytes byteorder')
                    return b, '(py_from_bytes %s %s)' % ('true' if order.value == 'little' else 'false', t), INT
            raise Untranslatable('call ' + ast.dump(f)[:60])
        raise Untranslatable('expression ' + type(e).__name__)

    def as_bool(self, t, ty):
        if ty == BOOL:
            return t
        if ty == INT:
            return '(negb (%s =? 0))' % t
        if ty == BYTES:
            return '(negb (py_len %s =? 0))' % t
        if ty == INTS:
            return '(negb (Nat.eqb (length %s) 0))' % t
        raise Untranslatable('truthiness of ' + str(ty))

    def compare(self, op, l, r):
        (_, t1, y1), (_, t2, y2) = l, r
        if y1 == INT and y2 == INT:
            table = {ast.Lt: '(%s <? %s)', ast.LtE: '(%s <=? %s)', ast.Gt: '(%s >? %s)', ast.GtE: '(%s >=? %s)',
                     ast.Eq: '(%s =? %s)', ast.NotEq: '(negb (%s =? %s))'}
            if op in table:
                return table[op] % (t1, t2)
        if y1 == BYTES and y2 == BYTES and op in (ast.Eq, ast.NotEq):
            c = '(py_bytes_eqb %s %s)' % (t1, t2)
            return c if op is ast.Eq else '(negb %s)' % c
        raise Untranslatable('comparison %s on %s,%s' % (op.__name__, y1, y2))

    def carried(self, body):
        names = []
        for node in body:
            for n in ast.walk(node):
                tgt = None
                if isinstance(n, ast.Assign) and len(n.targets) == 1 and isinstance(n.targets[0], ast.Name):
                    tgt = n.targets[0].id
                elif isinstance(n, ast.AugAssign) and isinstance(n.target, ast.Name):
                    tgt = n.target.id
                elif isinstance(n, ast.Call) and isinstance(n.func, ast.Attribute) and n.func.attr == 'append' \
                        and isinstance(n.func.value, ast.Name):
                    tgt = n.func.value.id
                if tgt and tgt in self.env and tgt not in names:
                    names.append(tgt)
        return names

    def tuple_of(self, vs):
        return vs[0] if len(vs) == 1 else '(' + ', '.join(vs) + ')'

    def pattern_of(self, vs):
        return vs[0] if len(vs) == 1 else "'(" + ', '.join(vs) + ')'

    def type_of(self, vs):
        ts = [coq_type(self.env[v]) for v in vs]
        return ts[0] if len(ts) == 1 else '(' + ' * '.join(ts) + ')'

    @staticmethod
    def wrap(binds, body):
        for n, t in reversed(binds):
            body = '(%s <- %s ;; %s)' % (n, t, body)
        return body

    # ---------------------------------------------------------------- statements
    def stmts(self, body, ret):
        if not body:
            raise Untranslatable('control reaches the end of the function without return')
        s, rest = body[0], body[1:]
        if isinstance(s, ast.Expr) and isinstance(s.value, ast.Constant) and isinstance(s.value.value, str):
            return self.stmts(rest, ret)
        if isinstance(s, _SetConst):
            saved = dict(self.consts)
            self.consts[s.name] = s.k
            try:
                return self.stmts(rest, ret)
            finally:
                self.consts = saved
        if isinstance(s, _DelConst):
            saved = dict(self.consts)
            self.consts.pop(s.name, None)
            try:
                return self.stmts(rest, ret)
            finally:
                self.consts = saved
        if isinstance(s, _Yield):
            if rest:
                raise Untranslatable('internal: yield not last')
            return 'Some ' + self.tuple_of(s.vars)
        if isinstance(s, ast.Return) and isinstance(s.value, ast.Constant) and s.value.value is None:
            return 'None'      # Python None result = no result
        if isinstance(s, ast.Expr) and isinstance(s.value, ast.Call) and isinstance(s.value.func, ast.Attribute) \
                and s.value.func.attr == 'append' and isinstance(s.value.func.value, ast.Name) \
                and self.env.get(s.value.func.value.id) == INTS and len(s.value.args) == 1:
            name = s.value.func.value.id
            b, t, y = self.expr(s.value.args[0])
            if y != INT:
                raise Untranslatable('append of non-int')
            self.static_len.pop(name, None)
            return self.wrap(b, '(let %s := (%s ++ [%s]) in %s)' % (name, name, t, self.stmts(rest, ret)))
        if isinstance(s, ast.For):
            if s.orelse or not isinstance(s.target, ast.Name):
                raise Untranslatable('for loop shape')
            it = s.iter
            if isinstance(it, ast.Call) and isinstance(it.func, ast.Name) and it.func.id == 'range' and len(it.args) == 1 \
                    and isinstance(it.args[0], ast.Constant) and isinstance(it.args[0].value, int) and 0 <= it.args[0].value <= 64:
                flat = []
                for k in range(it.args[0].value):
                    flat.append(_SetConst(s.target.id, k))
                    flat += list(s.body)
                flat.append(_DelConst(s.target.id))
                return self.stmts(flat + rest, ret)
            bi, ti, yi = self.expr(it)
            if yi not in (INTS, BYTES):
                raise Untranslatable('for loop over ' + str(yi))
            carried = self.carried(s.body)
            if not carried:
                raise Untranslatable('loop without carried variables')
            saved = dict(self.env)
            self.env[s.target.id] = INT
            elem = s.target.id if yi == INTS else '(bz %s)' % s.target.id
            body = self.stmts(list(s.body) + [_Yield(carried)], ret)
            self.env = saved
            for v in carried:
                self.static_len.pop(v, None)
            pat = self.pattern_of(carried)
            fn = '(fun st__ %s => st0__ <- st__ ;; (let %s := st0__ in %s))' % (
                s.target.id if yi == INTS else s.target.id + '__b', pat,
                body if yi == INTS else '(let %s := bz %s__b in %s)' % (s.target.id, s.target.id, body))
            cont = self.stmts(rest, ret)
            return self.wrap(bi, '(match fold_left %s %s (Some %s) with Some %s => %s | None => None end)' % (
                fn, ti, self.tuple_of(carried), self.tuple_of(carried), cont))
        if isinstance(s, ast.While):
            if s.orelse or not self.while_fuel:
                raise Untranslatable('while loop without a declared fuel bound')
            fuel_src = self.while_fuel.pop(0)
            bf, tf, yf = self.expr(ast.parse(fuel_src, mode='eval').body)
            if bf or yf != INT:
                raise Untranslatable('while fuel expression')
            carried = self.carried(s.body)
            bc, tc, yc = self.expr(s.test)
            if bc:
                raise Untranslatable('partial operation in while condition')
            tc = self.as_bool(tc, yc)
            body = self.stmts(list(s.body) + [_Yield(carried)], ret)
            for v in carried:
                self.static_len.pop(v, None)
            pat = self.pattern_of(carried)
            loop = ('((fix loop__ (fuel__ : nat) (st__ : %s) {struct fuel__} : option %s := match fuel__ with O => None | S f__ => '
                    'let %s := st__ in if %s then (match %s with Some st1__ => loop__ f__ st1__ | None => None end) else Some st__ end) '
                    '(S (Z.to_nat %s)) %s)') % (self.type_of(carried), self.type_of(carried), pat, tc, body, tf, self.tuple_of(carried))
            cont = self.stmts(rest, ret)
            return '(match %s with Some %s => %s | None => None end)' % (loop, self.tuple_of(carried), cont)
        if isinstance(s, ast.Return):
            if isinstance(s.value, ast.Tuple):
                if not isinstance(ret, tuple) or len(ret) != len(s.value.elts):
                    raise Untranslatable('tuple return shape')
                binds, terms = [], []
                for el, ty in zip(s.value.elts, ret):
                    b, t, y = self.expr(el)
                    if y != ty:
                        raise Untranslatable('return type')
                    binds += b
                    terms.append(t)
                return self.wrap(binds, 'Some (%s)' % ', '.join(terms))
            b, t, y = self.expr(s.value)
            if y != ret:
                raise Untranslatable('return type %s, expected %s' % (y, ret))
            return self.wrap(b, 'Some %s' % t)
        if isinstance(s, ast.Raise):
            return 'None'
        if isinstance(s, ast.Assign):
            if len(s.targets) != 1 or not isinstance(s.targets[0], ast.Name):
                raise Untranslatable('assignment target')
            name = s.targets[0].id
            b, t, y = self.expr(s.value)
            saved = dict(self.env)
            saved_len = dict(self.static_len)
            self.env[name] = y
            if isinstance(s.value, ast.List):
                self.static_len[name] = len(s.value.elts)
            else:
                self.static_len.pop(name, None)
            r = self.wrap(b, '(let %s := %s in %s)' % (name, t, self.stmts(rest, ret)))
            self.env = saved
            self.static_len = saved_len
            return r
        if isinstance(s, ast.AugAssign):
            if not isinstance(s.target, ast.Name) or not isinstance(s.op, (ast.Add, ast.Sub, ast.BitXor, ast.BitOr, ast.BitAnd)):
                raise Untranslatable('augmented assignment')
            new = ast.Assign(targets=[ast.Name(id=s.target.id, ctx=ast.Store())],
                             value=ast.BinOp(left=ast.Name(id=s.target.id, ctx=ast.Load()), op=s.op, right=s.value))
            return self.stmts([new] + rest, ret)
        if isinstance(s, ast.If):
            # whitelisted type guard: `if not isinstance(x, T): raise ...` is dropped (the model is typed)
            if (isinstance(s.test, ast.UnaryOp) and isinstance(s.test.op, ast.Not) and isinstance(s.test.operand, ast.Call)
                    and isinstance(s.test.operand.func, ast.Name) and s.test.operand.func.id == 'isinstance'
                    and len(s.body) == 1 and isinstance(s.body[0], ast.Raise) and not s.orelse):
                return self.stmts(rest, ret)
            b, t, y = self.expr(s.test)
            t = self.as_bool(t, y)
            saved = dict(self.env)
            then = self.stmts(list(s.body) + rest, ret)
            self.env = dict(saved)
            els = self.stmts(list(s.orelse) + rest, ret)
            self.env = saved
            return self.wrap(b, '(if %s then %s else %s)' % (t, then, els))
        raise Untranslatable('statement ' + type(s).__name__)


class _SetConst:
    def __init__(self, name, k):
        self.name, self.k = name, k


class _DelConst:
    def __init__(self, name):
        self.name = name


class _Yield:
    def __init__(self, vars):
        self.vars = vars


def translate_function(src_tree, fn, fns):
    node = None
    for n in src_tree.body:
        if isinstance(n, ast.FunctionDef) and n.name == fn.name:
            node = n
    if node is None:
        raise Untranslatable('function %s not found' % fn.name)
    params = [a.arg for a in node.args.args]
    if params != [a for a, _ in fn.args] or node.args.vararg or node.args.kwarg:
        raise Untranslatable('signature of %s changed: %r' % (fn.name, params))
    tr = Tr(fns, dict(fn.args))
    tr.while_fuel = list(fn.while_fuel)
    body = tr.stmts(list(node.body), fn.ret)
    if tr.while_fuel:
        raise Untranslatable('unused while fuel declarations in ' + fn.name)
    args = ' '.join('(%s : %s)' % (a, coq_type(t)) for a, t in fn.args)
    return 'Definition %s %s : option %s :=\n  %s.\n' % (fn.coq_name, args, coq_type(fn.ret), body)
