"""bitcoinlib/transactions.py (AST of the working tree) -> GenC02.v  (used by C02).

1. How the parse path learns the multisig threshold.  Input.update_scripts, branch p2sh_multisig / p2sh_p2wsh, block
   `if self.redeemscript and self.keys:` up to the statement that builds `signatures`: the statements that compute
   self.sigs_required are translated into ONE Gallina function

       gen_threshold (b0 b1 len cur : Z) : Z

   of the first two bytes of the redeem / witness script, its length and the value sigs_required had before
   (assignments, if / elif / else with comparisons, chained comparisons, and / or / not over integer expressions built from
   n_tag-like locals, self.redeemscript[0], self.redeemscript[1], len(self.redeemscript), self.sigs_required, integer
   constants, + and -).  Model/SignPlace.v runs this function (lib_script_threshold); Proofs/VerifyThreshold.v proves it
   equal to one of the two readings written out in the model, and the theorems of Properties/C02.v are about those.
   A shape outside the fragment does not abort the run: gen_threshold_translated is false and the glue fails.

2. Which attributes the serializer and the digest / verification functions read and write:
       gen_attrs_<function>_reads / _writes : list string
   for Transaction.raw, .signature_segwit, .signature, .signature_hash, .verify and Input.verify — every attribute
   name loaded (not called as a method) resp. stored anywhere in the function body.  Proofs/VerifyThreshold.v proves
   by vm_compute that the BIP143 digest reads no attribute that raw() does not read (a digest that takes a field from
   another copy than the one raw() serialises breaks that proof), that the committed attributes are among both, and
   that verify() / Input.verify read nothing outside the frozen list of the model."""
import ast, os
from coqfmt import z_lit, string_lit, list_lit

HDR = '''From Coq Require Import ZArith List Bool String.
Import ListNotations.
Open Scope Z_scope.
'''


class Untranslatable(Exception):
    pass


def find_method(tree, cls, name):
    for c in tree.body:
        if isinstance(c, ast.ClassDef) and c.name == cls:
            for f in c.body:
                if isinstance(f, ast.FunctionDef) and f.name == name:
                    return f
    raise Untranslatable('%s.%s not found' % (cls, name))


def is_self_attr(n, attr):
    return isinstance(n, ast.Attribute) and isinstance(n.value, ast.Name) and n.value.id == 'self' and n.attr == attr


def const_int(n):
    if isinstance(n, ast.Constant) and isinstance(n.value, int) and not isinstance(n.value, bool):
        return n.value
    if isinstance(n, ast.UnaryOp) and isinstance(n.op, ast.USub) and isinstance(n.operand, ast.Constant) \
            and isinstance(n.operand.value, int):
        return -n.operand.value
    return None


class Thr:
    """symbolic execution of the threshold block: every local and self.sigs_required is a Gallina term over b0 b1 len cur"""

    def __init__(self):
        self.env = {}
        self.sr = 'cur'

    def script_index(self, n):
        """self.redeemscript[k] / self.redeemscript[k:k+1]  ->  k"""
        if isinstance(n, ast.Subscript) and is_self_attr(n.value, 'redeemscript'):
            s = n.slice
            k = const_int(s)
            if k is not None:
                return k
            if isinstance(s, ast.Slice) and s.step is None and const_int(s.lower) is not None \
                    and const_int(s.upper) == const_int(s.lower) + 1:
                return const_int(s.lower)
        return None

    def expr(self, n):
        k = const_int(n)
        if k is not None:
            return z_lit(k)
        if isinstance(n, ast.Name):
            if n.id in self.env:
                return self.env[n.id]
            raise Untranslatable('name ' + n.id)
        if is_self_attr(n, 'sigs_required'):
            return self.sr
        k = self.script_index(n)
        if k == 0:
            return 'b0'
        if k == 1:
            return 'b1'
        if isinstance(n, ast.Call) and isinstance(n.func, ast.Name) and n.func.id == 'len' and len(n.args) == 1 \
                and is_self_attr(n.args[0], 'redeemscript'):
            return 'len'
        if isinstance(n, ast.Call) and isinstance(n.func, ast.Attribute) and n.func.attr == 'from_bytes' \
                and isinstance(n.func.value, ast.Name) and n.func.value.id == 'int' and len(n.args) == 2 \
                and isinstance(n.args[1], ast.Constant) and n.args[1].value in ('big', 'little'):
            # int.from_bytes(<one byte>, ...) is that byte
            return self.expr(n.args[0])
        if isinstance(n, ast.BinOp) and isinstance(n.op, (ast.Add, ast.Sub)):
            return '(%s %s %s)' % (self.expr(n.left), '+' if isinstance(n.op, ast.Add) else '-', self.expr(n.right))
        raise Untranslatable(ast.dump(n))

    OPS = {ast.Lt: '%s <? %s', ast.LtE: '%s <=? %s', ast.Gt: '%s >? %s', ast.GtE: '%s >=? %s', ast.Eq: '%s =? %s',
           ast.NotEq: 'negb (%s =? %s)'}

    def cond(self, n):
        if isinstance(n, ast.BoolOp):
            op = ' && ' if isinstance(n.op, ast.And) else ' || '
            return '(' + op.join(self.cond(v) for v in n.values) + ')'
        if isinstance(n, ast.UnaryOp) and isinstance(n.op, ast.Not):
            return '(negb %s)' % self.cond(n.operand)
        if isinstance(n, ast.Compare):
            parts, left = [], n.left
            for o, right in zip(n.ops, n.comparators):
                if type(o) not in self.OPS:
                    raise Untranslatable(ast.dump(n))
                parts.append('(' + self.OPS[type(o)] % (self.expr(left), self.expr(right)) + ')')
                left = right
            return '(' + ' && '.join(parts) + ')'
        raise Untranslatable(ast.dump(n))

    def is_normalisation(self, s):
        """if not isinstance(x, int): x = int.from_bytes(x, 'big')      (bytes slice -> int; no change of value)"""
        if not (isinstance(s, ast.If) and not s.orelse and len(s.body) == 1):
            return False
        t = s.test
        if not (isinstance(t, ast.UnaryOp) and isinstance(t.op, ast.Not) and isinstance(t.operand, ast.Call)
                and isinstance(t.operand.func, ast.Name) and t.operand.func.id == 'isinstance'):
            return False
        a = t.operand.args
        if not (len(a) == 2 and isinstance(a[0], ast.Name) and isinstance(a[1], ast.Name) and a[1].id == 'int'):
            return False
        b = s.body[0]
        return (isinstance(b, ast.Assign) and len(b.targets) == 1 and isinstance(b.targets[0], ast.Name)
                and b.targets[0].id == a[0].id and isinstance(b.value, ast.Call)
                and isinstance(b.value.func, ast.Attribute) and b.value.func.attr == 'from_bytes'
                and len(b.value.args) == 2 and isinstance(b.value.args[0], ast.Name) and b.value.args[0].id == a[0].id)

    def run(self, stmts):
        for s in stmts:
            if self.is_normalisation(s):
                continue
            if isinstance(s, ast.Expr) and isinstance(s.value, ast.Constant) and isinstance(s.value.value, str):
                continue
            if isinstance(s, ast.Assign) and len(s.targets) == 1:
                t = s.targets[0]
                if isinstance(t, ast.Name):
                    self.env[t.id] = self.expr(s.value)
                    continue
                if is_self_attr(t, 'sigs_required'):
                    self.sr = self.expr(s.value)
                    continue
                raise Untranslatable('assignment to ' + ast.dump(t))
            if isinstance(s, ast.If):
                c = self.cond(s.test)
                a, b = Thr(), Thr()
                a.env, a.sr = dict(self.env), self.sr
                b.env, b.sr = dict(self.env), self.sr
                a.run(s.body)
                b.run(s.orelse)
                for k in set(a.env) | set(b.env):
                    if k in a.env and k in b.env:
                        self.env[k] = a.env[k] if a.env[k] == b.env[k] else '(if %s then %s else %s)' % (c, a.env[k], b.env[k])
                    else:
                        self.env.pop(k, None)          # defined on one path only: not usable afterwards
                self.sr = a.sr if a.sr == b.sr else '(if %s then %s else %s)' % (c, a.sr, b.sr)
                continue
            if isinstance(s, ast.Pass):
                continue
            raise Untranslatable(ast.dump(s)[:200])


def threshold_block(tree):
    f = find_method(tree, 'Input', 'update_scripts')
    hits = []
    for n in ast.walk(f):
        if isinstance(n, ast.If) and isinstance(n.test, ast.BoolOp) and isinstance(n.test.op, ast.And) \
                and len(n.test.values) == 2 and is_self_attr(n.test.values[0], 'redeemscript') \
                and is_self_attr(n.test.values[1], 'keys'):
            hits.append(n)
    if len(hits) != 1:
        raise Untranslatable('%d blocks `if self.redeemscript and self.keys`' % len(hits))
    body = []
    for s in hits[0].body:
        if isinstance(s, ast.Assign) and len(s.targets) == 1 and isinstance(s.targets[0], ast.Name) \
                and s.targets[0].id == 'signatures':
            break
        body.append(s)
    else:
        raise Untranslatable('no `signatures = ...` statement in the block')
    # nothing after that statement may assign sigs_required again
    rest = hits[0].body[len(body):]
    for s in rest:
        for n in ast.walk(s):
            if isinstance(n, (ast.Assign, ast.AugAssign)):
                for t in (n.targets if isinstance(n, ast.Assign) else [n.target]):
                    if is_self_attr(t, 'sigs_required'):
                        raise Untranslatable('sigs_required assigned after the signature list is built')
    return body


def attr_sets(f):
    called = {id(n.func) for n in ast.walk(f) if isinstance(n, ast.Call)}
    reads, writes = set(), set()
    for n in ast.walk(f):
        if isinstance(n, ast.Attribute) and id(n) not in called:
            if isinstance(n.ctx, ast.Load):
                reads.add(n.attr)
            else:
                writes.add(n.attr)
    return sorted(reads), sorted(writes)


def S(s):
    s.encode('ascii')
    return '"%s"%%string' % s.replace('"', '""')


def generate(repo):
    src = open(os.path.join(repo, 'bitcoinlib', 'transactions.py'), encoding='utf8').read()
    tree = ast.parse(src)
    out = [HDR]
    out.append('(* ---- Input.update_scripts: the threshold read from the first bytes of the redeem / witness script ---- *)\n')
    try:
        st = Thr()
        st.run(threshold_block(tree))
        out.append('Definition gen_threshold_translated : bool := true.\n')
        out.append('Definition gen_threshold (b0 b1 len cur : Z) : Z :=\n  %s.\n' % st.sr)
    except Untranslatable as e:
        out.append('(* not in the fragment: %s *)\n' % str(e).replace('*)', '* )')[:300])
        out.append('Definition gen_threshold_translated : bool := false.\n')
        out.append('Definition gen_threshold (b0 b1 len cur : Z) : Z := cur.\n')
    out.append('\n(* ---- attributes read / written by the serializer, the digests and the verification functions ---- *)\n')
    for cls, name in (('Transaction', 'raw'), ('Transaction', 'signature_segwit'), ('Transaction', 'signature'),
                      ('Transaction', 'signature_hash'), ('Transaction', 'verify'), ('Input', 'verify')):
        tag = ('input_' if cls == 'Input' else '') + name
        try:
            r, w = attr_sets(find_method(tree, cls, name))
        except Untranslatable:
            r, w = ['<missing>'], ['<missing>']
        out.append('Definition gen_attrs_%s_reads : list string :=\n  %s.\n' % (tag, list_lit([S(x) for x in r])))
        out.append('Definition gen_attrs_%s_writes : list string :=\n  %s.\n' % (tag, list_lit([S(x) for x in w])))
    return {'GenC02.v': ''.join(out)}


if __name__ == '__main__':
    import sys
    print(generate(sys.argv[1] if len(sys.argv) > 1 else '/repo')['GenC02.v'])
