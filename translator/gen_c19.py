"""translator/gen_c19.py -> coq/Gen/GenC19.v: the STATE FOOTPRINT of the script interpreter, read from the AST of
bitcoinlib/scripts.py (Script.evaluate, every method of class Stack, encode_num / decode_num) and of the signature
check it calls (bitcoinlib/keys.py: Signature.parse_bytes, Signature.verify, verify).

For these functions the tables list
  c19_module_state_refs  (function, name): every use of a module-level name of the same file that is bound to a mutable
                         container (dict / list / set display or comprehension, dict() list() set() defaultdict() ...
                         call), or that some function of the file declares `global`;
  c19_class_state        (class, name): container-valued assignments in the body of Script / Stack / Signature;
  c19_attr_writes        (function, target): attribute stores (self.x = .., Script.x = .., x.y[k] = .., del, setattr,
                         augmented assignment), `global` / `nonlocal` statements;
  c19_self_reads         (function, attribute): attributes of self that are read and are neither methods of the class
                         nor list methods (Script.evaluate and the Stack methods only);
  c19_decorators         (function, decorator): decorators other than classmethod / staticmethod / property.
Properties/C19.v proves (by computation) that they equal the frozen footprint under which Model/EvalSession.v was
written: evaluate writes self.message / self.env_data / self.stack and nothing else, no scanned function touches
module-level or class-level mutable state.  A result cache, a memo decorator, a class attribute used as scratch space
change a table and break the proof.

Never raises: if the source cannot be read the tables carry an error marker (and the proof fails)."""
import ast, os
from coqfmt import string_lit, list_lit

CONTAINER_CALLS = {'dict', 'list', 'set', 'defaultdict', 'OrderedDict', 'deque', 'Counter', 'WeakValueDictionary',
                   'WeakKeyDictionary', 'LRU', 'lru_cache', 'cache', 'bytearray'}
PLAIN_DECORATORS = {'classmethod', 'staticmethod', 'property'}


def is_container(v):
    if isinstance(v, (ast.Dict, ast.List, ast.Set, ast.DictComp, ast.ListComp, ast.SetComp)):
        return True
    if isinstance(v, ast.Call):
        f = v.func
        name = f.id if isinstance(f, ast.Name) else f.attr if isinstance(f, ast.Attribute) else ''
        return name in CONTAINER_CALLS
    return False


def target_names(t):
    if isinstance(t, ast.Name):
        return [t.id]
    if isinstance(t, (ast.Tuple, ast.List)):
        return [n for e in t.elts for n in target_names(e)]
    return []


def module_state(tree):
    names = set()
    for st in tree.body:
        if isinstance(st, ast.Assign) and is_container(st.value):
            for t in st.targets:
                names.update(target_names(t))
        elif isinstance(st, ast.AnnAssign) and st.value is not None and is_container(st.value):
            names.update(target_names(st.target))
    for n in ast.walk(tree):
        if isinstance(n, ast.Global):
            names.update(n.names)
    return names


def class_state(tree, classes):
    out = []
    for st in tree.body:
        if isinstance(st, ast.ClassDef) and st.name in classes:
            for b in st.body:
                if isinstance(b, ast.Assign) and is_container(b.value):
                    for t in b.targets:
                        out += [(st.name, n) for n in target_names(t)]
                elif isinstance(b, ast.AnnAssign) and b.value is not None and is_container(b.value):
                    out += [(st.name, n) for n in target_names(b.target)]
    return out


def expr_text(e):
    try:
        return ast.unparse(e)
    except Exception:
        return '?'


def base_attr(t):
    """x.y, x.y[k], x.y.z[k][l] ... -> text of the attribute expression that is written through; None for plain names"""
    while isinstance(t, ast.Subscript):
        t = t.value
    if isinstance(t, ast.Attribute):
        return expr_text(t)
    return None


def scan_function(qual, fn, mstate, methods):
    refs, writes, reads, decos = [], [], [], []
    for d in fn.decorator_list:
        txt = expr_text(d)
        if txt not in PLAIN_DECORATORS:
            decos.append((qual, txt))
    called = set()
    for n in ast.walk(fn):
        if isinstance(n, ast.Call) and isinstance(n.func, ast.Attribute):
            called.add(id(n.func))
    for n in ast.walk(fn):
        if isinstance(n, ast.Name) and n.id in mstate:
            refs.append((qual, n.id))
        elif isinstance(n, (ast.Global, ast.Nonlocal)):
            writes += [(qual, ('global ' if isinstance(n, ast.Global) else 'nonlocal ') + x) for x in n.names]
        elif isinstance(n, (ast.Assign, ast.AugAssign, ast.AnnAssign, ast.Delete, ast.For, ast.With, ast.NamedExpr)):
            if isinstance(n, ast.Assign):
                tg = n.targets
            elif isinstance(n, ast.Delete):
                tg = n.targets
            elif isinstance(n, ast.With):
                tg = [i.optional_vars for i in n.items if i.optional_vars is not None]
            else:
                tg = [n.target]
            flat = []
            for t in tg:
                flat += t.elts if isinstance(t, (ast.Tuple, ast.List)) else [t]
            for t in flat:
                b = base_attr(t)
                if b is not None:
                    writes.append((qual, b))
        elif isinstance(n, ast.Call) and isinstance(n.func, ast.Name) and n.func.id in ('setattr', 'delattr'):
            writes.append((qual, expr_text(n)[:60]))
        elif isinstance(n, ast.Attribute) and isinstance(n.ctx, ast.Load) and isinstance(n.value, ast.Name) \
                and n.value.id == 'self' and methods is not None:
            if n.attr not in methods and not (id(n) in called and hasattr(list, n.attr)):
                reads.append((qual, n.attr))
    return refs, writes, reads, decos


def find_class(tree, name):
    for st in tree.body:
        if isinstance(st, ast.ClassDef) and st.name == name:
            return st
    return None


def functions_of(cls):
    return [b for b in cls.body if isinstance(b, (ast.FunctionDef, ast.AsyncFunctionDef))]


def pairs(name, items, comment):
    items = sorted(set(items))
    body = list_lit(['(%s, %s)' % (string_lit(a), string_lit(b)) for a, b in items])
    return '(* %s *)\nDefinition %s : list (string * string) := %s.\n' % (comment, name, body)


def generate(repo):
    refs, writes, reads, decos, cstate = [], [], [], [], []
    try:
        stree = ast.parse(open(os.path.join(repo, 'bitcoinlib', 'scripts.py'), encoding='utf8').read())
        ktree = ast.parse(open(os.path.join(repo, 'bitcoinlib', 'keys.py'), encoding='utf8').read())
        sstate, kstate = module_state(stree), module_state(ktree)
        cstate = class_state(stree, {'Script', 'Stack'}) + class_state(ktree, {'Signature'})
        script, stack, sig = find_class(stree, 'Script'), find_class(stree, 'Stack'), find_class(ktree, 'Signature')
        if script is None or stack is None or sig is None:
            raise RuntimeError('class Script / Stack / Signature not found')
        todo = []
        smeth = {f.name for f in functions_of(script)}
        ev = [f for f in functions_of(script) if f.name == 'evaluate']
        if len(ev) != 1:
            raise RuntimeError('Script.evaluate not found')
        todo.append(('Script.evaluate', ev[0], sstate, smeth))
        kmeth = {f.name for f in functions_of(stack)}
        for f in functions_of(stack):
            todo.append(('Stack.' + f.name, f, sstate, kmeth))
        for st in stree.body:
            if isinstance(st, ast.FunctionDef) and st.name in ('encode_num', 'decode_num'):
                todo.append((st.name, st, sstate, None))
        found = set()
        for f in functions_of(sig):
            if f.name in ('parse_bytes', 'verify'):
                todo.append(('Signature.' + f.name, f, kstate, None))
                found.add(f.name)
        for st in ktree.body:
            if isinstance(st, ast.FunctionDef) and st.name == 'verify':
                todo.append(('keys.verify', st, kstate, None))
        if found != {'parse_bytes', 'verify'}:
            raise RuntimeError('Signature.parse_bytes / Signature.verify not found')
        for qual, fn, mstate, methods in todo:
            a, b, c, d = scan_function(qual, fn, mstate, methods)
            refs += a
            writes += b
            reads += c
            decos += d
    except Exception as e:                               # fail closed through the proof, never through the translator
        msg = ('%s: %s' % (type(e).__name__, e)).encode('ascii', 'replace').decode()[:120]
        refs = [('translator/gen_c19.py', 'error ' + msg)]
    out = ['From Coq Require Import List String.', 'Import ListNotations.', 'Open Scope string_scope.', '']
    out.append(pairs('c19_module_state_refs', refs,
                     'uses of module-level mutable state (containers, `global` names) inside the scanned functions'))
    out.append(pairs('c19_class_state', cstate, 'container-valued class attributes of Script / Stack / Signature'))
    out.append(pairs('c19_attr_writes', writes, 'attribute stores and global / nonlocal statements inside the scanned functions'))
    out.append(pairs('c19_self_reads', reads, 'attributes of self read by Script.evaluate and the Stack methods'))
    out.append(pairs('c19_decorators', decos, 'decorators other than classmethod / staticmethod / property'))
    return {'GenC19.v': '\n'.join(out)}
