"""Second set of functions re-translated from the source on every run -> GenFuncs2.v (via py2coq, fail-closed).

Unlike gen_funcs.py a function that leaves the fragment does not abort the whole generation: its definition is
replaced by a comment naming the reason, so exactly the Glue lemma about that function stops compiling.

Module-level constants used by a translated body (secp256k1_p, BECH32M_CONST) are read from the imported module
of the working tree (the value the name is bound to at run time, whatever chain of star-imports provides it);
the builtins the translator gives a meaning to must not be rebound by the module."""
import ast, builtins, importlib, os, sys
from py2coq import Fn, translate_function, Untranslatable, INT, BYTES, BOOL, INTS, STR
import gen_funcs

HEADER = '''From Coq Require Import ZArith List Bool.
From Coq.Strings Require Import Byte.
From Verif Require Import Lib.Bytes Lib.Py Lib.Py2 Gen.GenFuncs.
Import ListNotations.
Open Scope Z_scope.

'''

BUILTINS = ('len', 'abs', 'bytes', 'int', 'range', 'ord', 'pow', 'divmod', 'isinstance', 'list')

PLAN2 = [
    ('bitcoinlib/keys.py', 'bitcoinlib.keys', [
        # k = <literal>; return pow(a, k + 1, secp256k1_p)
        Fn('mod_sqrt', [('a', INT)], INT, globals_={'secp256k1_p': None}),
    ]),
    ('bitcoinlib/blocks.py', 'bitcoinlib.blocks', [
        # property Block.target; self.bits is bytes (set by __init__ through to_bytes / int.to_bytes)
        Fn('target', [], INT, cls='Block', attrs=[('bits', BYTES)]),
    ]),
    ('bitcoinlib/encoding.py', 'bitcoinlib.encoding', [
        # bytes -> str (list of code points); the loop runs once per base-58 digit: at most 8 * len(inp) times
        Fn('base58encode', [('inp', BYTES)], STR, while_fuel=['8 * len(inp)']),
        # everything between the argument normalisation and the final string assembly:
        # header stripping, witness version / checksum constant selection, 8->5 regrouping, HRP expansion, checksum.
        # pubkeyhash is the list of byte values produced by the skipped first statement; prefix is a str.
        Fn('pubkeyhash_to_addr_bech32',
           [('pubkeyhash', INTS), ('prefix', STR), ('witver', INT), ('separator', STR), ('checksum_xor', INT)],
           (INTS, INTS), coq_name='gen_bech32_enc_core', globals_={'BECH32M_CONST': None}, join_ifs=True,
           skip_first=[('pubkeyhash = list(to_bytes(pubkeyhash))', {'pubkeyhash': INTS})],
           outputs=['data', 'checksum']),
        # the decoder from the HRP expansion to the last validity check.  DECLARED at the first statement of the
        # range: hrp is a str (a slice of the address) and data a list of ints (result of _codestring_to_array).
        Fn('addr_bech32_to_pubkeyhash', [('bech', STR), ('prefix', STR), ('include_witver', BOOL), ('as_hex', BOOL)],
           (INTS, BYTES), coq_name='gen_bech32_dec_core', globals_={'BECH32M_CONST': None}, join_ifs=True,
           start_at='hrp_expanded', range_inputs=[('hrp', STR), ('data', INTS)],
           end_before="prefix = b''", outputs=['data', 'decoded']),
        # hrp_expanded = ...; return _bech32_polymod(hrp_expanded + data)   (same declaration)
        Fn('addr_bech32_checksum', [('bech', STR)], INT, coq_name='gen_bech32_checksum_core',
           start_at='hrp_expanded', range_inputs=[('hrp', STR), ('data', INTS)]),
    ]),
]


def callee_table(repo):
    """the functions of the first set, callable from the second (with their parameter defaults)"""
    fns = {}
    for rel, lst in gen_funcs.PLAN:
        tree = ast.parse(open(os.path.join(repo, rel), encoding='utf8').read())
        for fn in lst:
            translate_function(tree, fn, dict(fns))      # fills fn.defaults; aborts like gen_funcs does
            fns[fn.name] = fn
    return fns


def generate(repo):
    if repo not in sys.path:
        sys.path.insert(0, repo)
    out = [HEADER]
    base = callee_table(repo)
    for rel, modname, lst in PLAN2:
        try:
            tree = ast.parse(open(os.path.join(repo, rel), encoding='utf8').read())
            mod = importlib.import_module(modname)
            if os.path.realpath(mod.__file__) != os.path.realpath(os.path.join(repo, rel)):
                raise Untranslatable('%s was imported from %s, not from the working tree' % (modname, mod.__file__))
            for b in BUILTINS:
                if getattr(mod, b, getattr(builtins, b)) is not getattr(builtins, b):
                    raise Untranslatable('module rebinds builtin ' + b)
        except Exception as e:      # a file that cannot be read / imported: none of its functions is tied
            for fn in lst:
                out.append('(* UNTRANSLATABLE %s: %s: %s *)\n' % (fn.coq_name, rel, str(e).replace('*)', '* )')[:300]))
            continue
        # only callees of the first set that are defined in this very file may be called by name
        here = {n.name for n in tree.body if isinstance(n, ast.FunctionDef)}
        fns = {k: v for k, v in base.items() if k in here and
               any(k in [f.name for f in l] for r, l in gen_funcs.PLAN if r == rel)}
        for fn in lst:
            out.append('(* %s: %s%s *)' % (rel, fn.cls + '.' if fn.cls else '', fn.name))
            try:
                for g in list(fn.globals):
                    v = getattr(mod, g, None)
                    if not isinstance(v, int) or isinstance(v, bool):
                        raise Untranslatable('module constant %s is not an int' % g)
                    fn.globals[g] = v
                out.append(translate_function(tree, fn, fns))
            except Untranslatable as e:
                out.append('(* UNTRANSLATABLE %s: %s *)\n' % (fn.coq_name, str(e).replace('*)', '* )')))
    return {'GenFuncs2.v': '\n'.join(out)}
