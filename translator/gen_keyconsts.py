"""bitcoinlib/keys.py -> GenKeyConsts.v: the integer literals of the public key decompression code (C04).
Read from the AST of the working tree, fail-closed on any other shape:
  mod_sqrt(a):                    k = <literal>; return pow(a, k + 1, secp256k1_p)
  Key.public_uncompressed_hex:    ys = pow(self._x, <e>, secp256k1_p) + <b> % secp256k1_p"""
import ast, os
from coqfmt import *


def _is_name(n, name):
    return isinstance(n, ast.Name) and n.id == name


def _int(n):
    if isinstance(n, ast.Constant) and isinstance(n.value, int) and not isinstance(n.value, bool):
        return n.value
    raise ValueError('integer literal expected at line %d' % n.lineno)


def generate(repo):
    tree = ast.parse(open(os.path.join(repo, 'bitcoinlib', 'keys.py'), encoding='utf8').read())
    k = None
    dec = None
    for node in tree.body:
        if isinstance(node, ast.FunctionDef) and node.name == 'mod_sqrt':
            body = [s for s in node.body if not (isinstance(s, ast.Expr) and isinstance(s.value, ast.Constant))]
            if len(body) != 2 or [a.arg for a in node.args.args] != ['a']:
                raise ValueError('mod_sqrt: unexpected shape')
            asg, ret = body
            if not (isinstance(asg, ast.Assign) and len(asg.targets) == 1 and _is_name(asg.targets[0], 'k')):
                raise ValueError('mod_sqrt: expected "k = <literal>"')
            k = _int(asg.value)
            c = ret.value if isinstance(ret, ast.Return) else None
            if not (isinstance(c, ast.Call) and _is_name(c.func, 'pow') and len(c.args) == 3 and not c.keywords
                    and _is_name(c.args[0], 'a') and isinstance(c.args[1], ast.BinOp)
                    and isinstance(c.args[1].op, ast.Add) and _is_name(c.args[1].left, 'k')
                    and _int(c.args[1].right) == 1 and _is_name(c.args[2], 'secp256k1_p')):
                raise ValueError('mod_sqrt: expected "return pow(a, k + 1, secp256k1_p)"')
        if isinstance(node, ast.ClassDef) and node.name == 'Key':
            for f in node.body:
                if isinstance(f, ast.FunctionDef) and f.name == 'public_uncompressed_hex':
                    for s in ast.walk(f):
                        if isinstance(s, ast.Assign) and len(s.targets) == 1 and _is_name(s.targets[0], 'ys'):
                            v = s.value
                            # pow(self._x, e, secp256k1_p) + (b % secp256k1_p)
                            if not (isinstance(v, ast.BinOp) and isinstance(v.op, ast.Add)
                                    and isinstance(v.left, ast.Call) and _is_name(v.left.func, 'pow')
                                    and len(v.left.args) == 3 and _is_name(v.left.args[2], 'secp256k1_p')
                                    and isinstance(v.left.args[0], ast.Attribute) and v.left.args[0].attr == '_x'
                                    and isinstance(v.right, ast.BinOp) and isinstance(v.right.op, ast.Mod)
                                    and _is_name(v.right.right, 'secp256k1_p')):
                                raise ValueError('public_uncompressed_hex: unexpected expression for ys')
                            dec = (_int(v.left.args[1]), _int(v.right.left))
    if k is None or dec is None:
        raise ValueError('mod_sqrt / public_uncompressed_hex not found')
    out = [HEADER,
           '(* keys.mod_sqrt: k = <literal>; return pow(a, k + 1, secp256k1_p) *)',
           'Definition keys_mod_sqrt_k : Z := %s.' % z_lit(k),
           '(* Key.public_uncompressed_hex: ys = pow(self._x, e, secp256k1_p) + b % secp256k1_p *)',
           'Definition keys_decompress_e : Z := %s.' % z_lit(dec[0]),
           'Definition keys_decompress_b : Z := %s.' % z_lit(dec[1])]
    return {'GenKeyConsts.v': '\n'.join(out) + '\n'}
