"""bitcoinlib/keys.py -> GenBip32.v  (C03): the guards and flag handling of the BIP32 derivation code,
read from the AST of the working tree and printed as Gallina boolean functions / constants:
  HDKey.from_seed          the HMAC key literal; the test of the `if` that raises on key_int
  HDKey.child_private      the test of the `if` whose body does `index |= <bit>`; <bit>
  HDKey.child_public       the test of the first `if` on `index` that raises
  HDKey.subkey_for_path    the marker string of `item[-1] in "..."`; on the public branch, whether a
                           marked element raises; the test of the `if` on (hardened, index) that raises
Proofs/Bip32Glue.v proves each item equal to what Model/Bip32.v uses, so a source edit of a threshold,
comparison operator, marker set or flag handling breaks a proof.  A shape outside the fragment does not
abort the run: the item is emitted as [gen_untranslated] (a unit value), which cannot satisfy the glue."""
import ast, os
from coqfmt import *

OPS = {ast.Gt: '>?', ast.GtE: '>=?', ast.Lt: '<?', ast.LtE: '<=?', ast.Eq: '=?'}
NAMES = {'secp256k1_n': 'secp_n'}


class Untranslatable(Exception):
    pass


def atom(n, boolvars):
    if isinstance(n, ast.Constant) and isinstance(n.value, int) and not isinstance(n.value, bool):
        return z_lit(n.value)
    if isinstance(n, ast.Name) and n.id not in boolvars:
        return NAMES.get(n.id, n.id)
    raise Untranslatable(ast.dump(n))


def cond(n, boolvars):
    """boolean expression over integer variables and the boolean variables [boolvars]"""
    if isinstance(n, ast.BoolOp):
        op = ' && ' if isinstance(n.op, ast.And) else ' || '
        return '(' + op.join(cond(v, boolvars) for v in n.values) + ')'
    if isinstance(n, ast.UnaryOp) and isinstance(n.op, ast.Not):
        return '(negb %s)' % cond(n.operand, boolvars)
    if isinstance(n, ast.Name) and n.id in boolvars:
        return n.id
    if isinstance(n, ast.Compare) and len(n.ops) == 1 and type(n.ops[0]) in OPS:
        return '(%s %s %s)' % (atom(n.left, boolvars), OPS[type(n.ops[0])], atom(n.comparators[0], boolvars))
    raise Untranslatable(ast.dump(n))


def names_in(n):
    return {x.id for x in ast.walk(n) if isinstance(x, ast.Name)}


def raises(body):
    return any(isinstance(s, ast.Raise) for s in body)


def find_method(tree, cls, name):
    for c in tree.body:
        if isinstance(c, ast.ClassDef) and c.name == cls:
            for f in c.body:
                if isinstance(f, ast.FunctionDef) and f.name == name:
                    return f
    raise Untranslatable('%s.%s not found' % (cls, name))


def item(out, name, typ, fn):
    try:
        out.append('Definition %s : %s := %s.' % (name, typ, fn()))
    except Exception as e:                      # outside the fragment: emit a value that cannot satisfy the glue
        out.append('(* %s: not translated (%s) *)' % (name, str(e)[:120].replace('*)', '* )')))
        out.append('Definition %s : unit := tt.' % name)


def generate(repo):
    tree = ast.parse(open(os.path.join(repo, 'bitcoinlib', 'keys.py'), encoding='utf8').read())
    out = [HEADER, 'From Verif Require Import Crypto.Secp256k1.', '']

    def from_seed_key():
        f = find_method(tree, 'HDKey', 'from_seed')
        for n in ast.walk(f):
            if isinstance(n, ast.Call) and isinstance(n.func, ast.Attribute) and n.func.attr == 'new' and n.args and \
                    isinstance(n.args[0], ast.Constant) and isinstance(n.args[0].value, bytes):
                return bytes_lit(n.args[0].value)
        raise Untranslatable('hmac.new(b"...", ...) not found')

    def from_seed_guard():
        f = find_method(tree, 'HDKey', 'from_seed')
        for n in ast.walk(f):
            if isinstance(n, ast.If) and raises(n.body) and 'key_int' in names_in(n.test):
                return 'fun key_int : Z => ' + cond(n.test, set())
        raise Untranslatable('no raising test on key_int')

    def child_private_if():
        f = find_method(tree, 'HDKey', 'child_private')
        for n in ast.walk(f):
            if isinstance(n, ast.If):
                for s in n.body:
                    if isinstance(s, ast.AugAssign) and isinstance(s.op, ast.BitOr) and \
                            isinstance(s.target, ast.Name) and s.target.id == 'index':
                        return n, s
        raise Untranslatable('no `index |= ...` branch')

    def child_private_hard():
        n, _ = child_private_if()
        return 'fun (hardened : bool) (index : Z) => ' + cond(n.test, {'hardened'})

    def child_private_bit():
        _, s = child_private_if()
        return atom(s.value, set())

    def child_public_guard():
        f = find_method(tree, 'HDKey', 'child_public')
        for n in f.body:
            if isinstance(n, ast.If) and raises(n.body) and names_in(n.test) == {'index'}:
                return 'fun index : Z => ' + cond(n.test, set())
        raise Untranslatable('no raising test on index')

    def loop_of_subkey():
        f = find_method(tree, 'HDKey', 'subkey_for_path')
        for n in ast.walk(f):
            if isinstance(n, ast.For) and isinstance(n.target, ast.Name) and n.target.id == 'item':
                return n
        raise Untranslatable('no `for item in path` loop')

    def markers():
        for n in ast.walk(loop_of_subkey()):
            if isinstance(n, ast.Compare) and len(n.ops) == 1 and isinstance(n.ops[0], ast.In) and \
                    isinstance(n.comparators[0], ast.Constant) and isinstance(n.comparators[0].value, str) and \
                    isinstance(n.left, ast.Subscript):
                return bytes_lit(n.comparators[0].value.encode('ascii'))
        raise Untranslatable('no `item[-1] in "..."`')

    def public_branch():
        for n in loop_of_subkey().body:
            if isinstance(n, ast.If) and 'first_public' in names_in(n.test):
                return n
        raise Untranslatable('no first_public branch')

    def public_refuses_marker():
        b = public_branch()
        # `if hardened: raise` must come before the call of child_public
        for s in b.body:
            if isinstance(s, ast.If) and isinstance(s.test, ast.Name) and s.test.id == 'hardened' and raises(s.body):
                return 'true'
            if any(isinstance(c, ast.Attribute) and c.attr == 'child_public' for c in ast.walk(s)):
                return 'false'
        return 'false'

    def marked_guard():
        for n in loop_of_subkey().body:
            if isinstance(n, ast.If) and raises(n.body) and names_in(n.test) == {'hardened', 'index'}:
                return 'fun (hardened : bool) (index : Z) => ' + cond(n.test, {'hardened'})
        return 'fun (hardened : bool) (index : Z) => false'      # no such test in the source

    def negative_guard():
        for n in loop_of_subkey().body:
            if isinstance(n, ast.If) and raises(n.body) and names_in(n.test) == {'index'}:
                return 'fun index : Z => ' + cond(n.test, set())
        raise Untranslatable('no raising test on index in the loop')

    def bare_public():
        f = find_method(tree, 'HDKey', 'subkey_for_path')
        for n in f.body:
            if isinstance(n, ast.If) and {'first_public', 'path'} <= names_in(n.test) and \
                    any(isinstance(c, ast.Attribute) and c.attr == 'public' for s in n.body for c in ast.walk(s)):
                return 'true'
        return 'false'

    item(out, 'gen_seed_key', 'list byte', from_seed_key)
    item(out, 'gen_from_seed_guard', 'Z -> bool', from_seed_guard)
    item(out, 'gen_child_private_hard', 'bool -> Z -> bool', child_private_hard)
    item(out, 'gen_child_private_bit', 'Z', child_private_bit)
    item(out, 'gen_child_public_guard', 'Z -> bool', child_public_guard)
    item(out, 'gen_markers', 'list byte', markers)
    item(out, 'gen_public_refuses_marker', 'bool', public_refuses_marker)
    item(out, 'gen_marked_guard', 'bool -> Z -> bool', marked_guard)
    item(out, 'gen_negative_guard', 'Z -> bool', negative_guard)
    item(out, 'gen_bare_M_public', 'bool', bare_public)
    return {'GenBip32.v': '\n'.join(out) + '\n'}
