"""bitcoinlib/keys.py -> GenBip32.v  (C03): the guards and flag handling of the BIP32 derivation code,
read from the AST of the working tree and printed as Gallina boolean functions / constants:
  HDKey.from_seed          the HMAC key literal; the test of the `if` that raises on key_int
  HDKey.child_private      the test of the `if` whose body does `index |= <bit>`; <bit>
  HDKey.child_public       the test of the first `if` on `index` that raises
  HDKey.subkey_for_path    the marker string of `item[-1] in "..."`; on the public branch, whether a
                           marked element raises; the test of the `if` on (hardened, index) that raises
  state                    everything the derivation methods write outside their local variables (attribute and
                           subscript stores, mutating calls on self or on globals, global statements, decorators,
                           mutable defaults): nothing; the attributes HDKey.__init__ sets; what public() clears on its
                           deepcopy; what public_master / network_change write on self (the wallet settings)
Proofs/Bip32Glue.v proves each item equal to what Model/Bip32.v uses, so a source edit of a threshold,
comparison operator, marker set or flag handling breaks a proof.  A shape outside the fragment does not
abort the run: the item is emitted as [gen_untranslated] (a unit value), which cannot satisfy the glue."""
import ast, os
from coqfmt import *

OPS = {ast.Gt: '>?', ast.GtE: '>=?', ast.Lt: '<?', ast.LtE: '<=?', ast.Eq: '=?'}
NAMES = {'secp256k1_n': 'secp_n'}


class Untranslatable(Exception):
    pass


def atom(n, boolvars):
    if isinstance(n, ast.Constant) and isinstance(n.value, int) and not isinstance(n.value, bool):
        return z_lit(n.value)
    if isinstance(n, ast.Name) and n.id not in boolvars:
        return NAMES.get(n.id, n.id)
    raise Untranslatable(ast.dump(n))


def cond(n, boolvars):
    """boolean expression over integer variables and the boolean variables [boolvars]"""
    if isinstance(n, ast.BoolOp):
        op = ' && ' if isinstance(n.op, ast.And) else ' || '
        return '(' + op.join(cond(v, boolvars) for v in n.values) + ')'
    if isinstance(n, ast.UnaryOp) and isinstance(n.op, ast.Not):
        return '(negb %s)' % cond(n.operand, boolvars)
    if isinstance(n, ast.Name) and n.id in boolvars:
        return n.id
    if isinstance(n, ast.Compare) and len(n.ops) == 1 and type(n.ops[0]) in OPS:
        return '(%s %s %s)' % (atom(n.left, boolvars), OPS[type(n.ops[0])], atom(n.comparators[0], boolvars))
    raise Untranslatable(ast.dump(n))


def names_in(n):
    return {x.id for x in ast.walk(n) if isinstance(x, ast.Name)}


def raises(body):
    return any(isinstance(s, ast.Raise) for s in body)


def find_method(tree, cls, name):
    for c in tree.body:
        if isinstance(c, ast.ClassDef) and c.name == cls:
            for f in c.body:
                if isinstance(f, ast.FunctionDef) and f.name == name:
                    return f
    raise Untranslatable('%s.%s not found' % (cls, name))


MUTATORS = {'append', 'extend', 'insert', 'remove', 'pop', 'clear', 'update', 'setdefault', 'add', 'discard', 'popitem',
            'sort', 'reverse', '__setitem__', '__delitem__', '__setattr__', 'appendleft', 'cache_clear'}


def chain_of(n):
    """'root.attr.attr' of an attribute / subscript chain (subscripts are skipped), and the root name"""
    parts = []
    while isinstance(n, (ast.Attribute, ast.Subscript, ast.Call)):
        if isinstance(n, ast.Attribute):
            parts.append(n.attr)
            n = n.value
        elif isinstance(n, ast.Subscript):
            n = n.value
        else:
            parts.append('()')
            n = n.func
    root = n.id if isinstance(n, ast.Name) else '?'
    return '.'.join([root] + parts[::-1]), root


def writes_of(f):
    """everything a method writes that is not a plain local variable, in source order"""
    local = {a.arg for a in f.args.args + f.args.kwonlyargs}
    for n in ast.walk(f):
        if isinstance(n, ast.Name) and isinstance(n.ctx, ast.Store):
            local.add(n.id)
    selfname = f.args.args[0].arg if f.args.args else None
    out = []
    for d in f.decorator_list:
        name = chain_of(d)[0]
        if name not in ('staticmethod', 'property', 'classmethod'):
            out.append('@' + name)
    for d in f.args.defaults + [k for k in f.args.kw_defaults if k is not None]:
        if isinstance(d, (ast.Dict, ast.List, ast.Set, ast.Call, ast.ListComp, ast.DictComp, ast.SetComp)):
            out.append('mutable default')

    def target(t):
        if isinstance(t, (ast.Tuple, ast.List)):
            for e in t.elts:
                target(e)
        elif isinstance(t, ast.Starred):
            target(t.value)
        elif isinstance(t, (ast.Attribute, ast.Subscript)):
            out.append(chain_of(t)[0])

    for n in ast.walk(f):
        if isinstance(n, ast.Assign):
            for t in n.targets:
                target(t)
        elif isinstance(n, (ast.AugAssign, ast.AnnAssign)):
            target(n.target)
        elif isinstance(n, ast.Delete):
            for t in n.targets:
                target(t)
        elif isinstance(n, (ast.For, ast.AsyncFor)):
            target(n.target)
        elif isinstance(n, ast.withitem) and n.optional_vars is not None:
            target(n.optional_vars)
        elif isinstance(n, ast.NamedExpr):
            target(n.target)
        elif isinstance(n, (ast.Global, ast.Nonlocal)):
            out += ['global ' + x for x in n.names]
        elif isinstance(n, ast.Call):
            if isinstance(n.func, ast.Name) and n.func.id in ('setattr', 'delattr'):
                out.append(n.func.id + '()')
            elif isinstance(n.func, ast.Attribute) and n.func.attr in MUTATORS:
                name, root = chain_of(n.func)
                if root == selfname or root not in local:
                    out.append(name + '()')
    return out


def strings(l):
    return list_lit([string_lit(x) for x in l])


def item(out, name, typ, fn):
    try:
        out.append('Definition %s : %s := %s.' % (name, typ, fn()))
    except Exception as e:                      # outside the fragment: emit a value that cannot satisfy the glue
        out.append('(* %s: not translated (%s) *)' % (name, str(e)[:120].replace('*)', '* )')))
        out.append('Definition %s : unit := tt.' % name)


def generate(repo):
    tree = ast.parse(open(os.path.join(repo, 'bitcoinlib', 'keys.py'), encoding='utf8').read())
    out = [HEADER, 'From Verif Require Import Crypto.Secp256k1.', '']

    def from_seed_key():
        f = find_method(tree, 'HDKey', 'from_seed')
        for n in ast.walk(f):
            if isinstance(n, ast.Call) and isinstance(n.func, ast.Attribute) and n.func.attr == 'new' and n.args and \
                    isinstance(n.args[0], ast.Constant) and isinstance(n.args[0].value, bytes):
                return bytes_lit(n.args[0].value)
        raise Untranslatable('hmac.new(b"...", ...) not found')

    def from_seed_guard():
        f = find_method(tree, 'HDKey', 'from_seed')
        for n in ast.walk(f):
            if isinstance(n, ast.If) and raises(n.body) and 'key_int' in names_in(n.test):
                return 'fun key_int : Z => ' + cond(n.test, set())
        raise Untranslatable('no raising test on key_int')

    def child_private_if():
        f = find_method(tree, 'HDKey', 'child_private')
        for n in ast.walk(f):
            if isinstance(n, ast.If):
                for s in n.body:
                    if isinstance(s, ast.AugAssign) and isinstance(s.op, ast.BitOr) and \
                            isinstance(s.target, ast.Name) and s.target.id == 'index':
                        return n, s
        raise Untranslatable('no `index |= ...` branch')

    def child_private_hard():
        n, _ = child_private_if()
        return 'fun (hardened : bool) (index : Z) => ' + cond(n.test, {'hardened'})

    def child_private_bit():
        _, s = child_private_if()
        return atom(s.value, set())

    def child_public_guard():
        f = find_method(tree, 'HDKey', 'child_public')
        for n in f.body:
            if isinstance(n, ast.If) and raises(n.body) and names_in(n.test) == {'index'}:
                return 'fun index : Z => ' + cond(n.test, set())
        raise Untranslatable('no raising test on index')

    def loop_of_subkey():
        f = find_method(tree, 'HDKey', 'subkey_for_path')
        for n in ast.walk(f):
            if isinstance(n, ast.For) and isinstance(n.target, ast.Name) and n.target.id == 'item':
                return n
        raise Untranslatable('no `for item in path` loop')

    def markers():
        for n in ast.walk(loop_of_subkey()):
            if isinstance(n, ast.Compare) and len(n.ops) == 1 and isinstance(n.ops[0], ast.In) and \
                    isinstance(n.comparators[0], ast.Constant) and isinstance(n.comparators[0].value, str) and \
                    isinstance(n.left, ast.Subscript):
                return bytes_lit(n.comparators[0].value.encode('ascii'))
        raise Untranslatable('no `item[-1] in "..."`')

    def public_branch():
        for n in loop_of_subkey().body:
            if isinstance(n, ast.If) and 'first_public' in names_in(n.test):
                return n
        raise Untranslatable('no first_public branch')

    def public_refuses_marker():
        b = public_branch()
        # `if hardened: raise` must come before the call of child_public
        for s in b.body:
            if isinstance(s, ast.If) and isinstance(s.test, ast.Name) and s.test.id == 'hardened' and raises(s.body):
                return 'true'
            if any(isinstance(c, ast.Attribute) and c.attr == 'child_public' for c in ast.walk(s)):
                return 'false'
        return 'false'

    def marked_guard():
        for n in loop_of_subkey().body:
            if isinstance(n, ast.If) and raises(n.body) and names_in(n.test) == {'hardened', 'index'}:
                return 'fun (hardened : bool) (index : Z) => ' + cond(n.test, {'hardened'})
        return 'fun (hardened : bool) (index : Z) => false'      # no such test in the source

    def negative_guard():
        for n in loop_of_subkey().body:
            if isinstance(n, ast.If) and raises(n.body) and names_in(n.test) == {'index'}:
                return 'fun index : Z => ' + cond(n.test, set())
        raise Untranslatable('no raising test on index in the loop')

    def bare_public():
        f = find_method(tree, 'HDKey', 'subkey_for_path')
        for n in f.body:
            if isinstance(n, ast.If) and {'first_public', 'path'} <= names_in(n.test) and \
                    any(isinstance(c, ast.Attribute) and c.attr == 'public' for s in n.body for c in ast.walk(s)):
                return 'true'
        return 'false'

    item(out, 'gen_seed_key', 'list byte', from_seed_key)
    item(out, 'gen_from_seed_guard', 'Z -> bool', from_seed_guard)
    item(out, 'gen_child_private_hard', 'bool -> Z -> bool', child_private_hard)
    item(out, 'gen_child_private_bit', 'Z', child_private_bit)
    item(out, 'gen_child_public_guard', 'Z -> bool', child_public_guard)
    item(out, 'gen_markers', 'list byte', markers)
    item(out, 'gen_public_refuses_marker', 'bool', public_refuses_marker)
    item(out, 'gen_marked_guard', 'bool -> Z -> bool', marked_guard)
    item(out, 'gen_negative_guard', 'Z -> bool', negative_guard)
    item(out, 'gen_bare_M_public', 'bool', bare_public)

    def derivation_writes():
        l = []
        for m in ('from_seed', '_key_derivation', 'fingerprint', 'subkey_for_path', 'child_private', 'child_public'):
            l += ['%s: %s' % (m, w) for w in writes_of(find_method(tree, 'HDKey', m))]
        return strings(l)

    def lazy_writes():
        # the memoised renderings of the public key the derivation code reads (functions of the immutable key)
        l = []
        for m in ('x', 'y', 'public_point', 'hash160'):
            l += ['%s: %s' % (m, w) for w in writes_of(find_method(tree, 'Key', m))]
        return strings(l)

    def init_fields():
        f = find_method(tree, 'HDKey', '__init__')
        return strings([w for w in writes_of(f)])

    def public_copy():
        f = find_method(tree, 'HDKey', 'public')
        for n in f.body:
            if isinstance(n, ast.Assign) and isinstance(n.value, ast.Call) and len(n.value.args) == 1 and \
                    isinstance(n.value.args[0], ast.Name) and n.value.args[0].id == 'self' and not n.value.keywords:
                return string_lit('%s = %s(self)' % (chain_of(n.targets[0])[0], chain_of(n.value.func)[0]))
        raise Untranslatable('no `x = f(self)` in public()')

    item(out, 'gen_derivation_writes', 'list string', derivation_writes)
    item(out, 'gen_key_lazy_writes', 'list string', lazy_writes)
    item(out, 'gen_hdkey_init_writes', 'list string', init_fields)
    item(out, 'gen_public_copy', 'string', public_copy)
    item(out, 'gen_public_writes', 'list string', lambda: strings(writes_of(find_method(tree, 'HDKey', 'public'))))
    item(out, 'gen_public_master_writes', 'list string', lambda: strings(writes_of(find_method(tree, 'HDKey', 'public_master'))))
    item(out, 'gen_public_master_multisig_writes', 'list string',
         lambda: strings(writes_of(find_method(tree, 'HDKey', 'public_master_multisig'))))
    item(out, 'gen_network_change_writes', 'list string', lambda: strings(writes_of(find_method(tree, 'HDKey', 'network_change'))))
    # not tied yet: [] once fixes/C03-8 is in (before the repair wif(child_index=n) stores n: ["self.child_index"])
    item(out, 'gen_wif_writes', 'list string', lambda: strings(writes_of(find_method(tree, 'HDKey', 'wif'))))
    return {'GenBip32.v': '\n'.join(out) + '\n'}
