"""scripts.get_data_type -> GenDataType.v: the decision of the push classifier (signature / key / data / other) on a grid of
probe byte strings, evaluated by the function of the working tree.  A probe is (first byte, kind of second byte, length); the
bytes are rebuilt from the triple by the same formula on the Coq side (Proofs/AddrScriptDataType.v: mk_probe), where the
model's get_data_type is compared with every row by vm_compute: a changed length window, prefix test or a new dependence on
the second byte (DER sequence length n-3, n-2, ...) breaks that proof."""
import os, sys
from coqfmt import *

FIRST = [0, 1, 2, 3, 4, 5, 6, 7, 8, 0x14, 0x20, 0x21, 0x2f, 0x30, 0x31, 0x41, 0x4c, 0x4d, 0x4e, 0x51, 0x60, 0x6a, 0x76,
         0xa9, 0xac, 0xff]
KINDS = 7        # second byte: 0 -> 0x00, 1 -> n-3, 2 -> n-2, 3 -> n-1, 4 -> n, 5 -> 0x02, 6 -> 0x44
MAXLEN = 80


def probe(b0, k, n):
    if n == 0:
        return b''
    second = [0, n - 3, n - 2, n - 1, n, 2, 0x44][k] & 0xff
    body = [b0] + ([second] if n >= 2 else []) + [(i * 7 + 1) & 0xff for i in range(2, n)]
    return bytes(body[:n])


def generate(repo):
    sys.path.insert(0, repo)
    import bitcoinlib.scripts as scr
    rows = []
    for b0 in FIRST:
        for k in range(KINDS):
            for n in range(0, MAXLEN + 1):
                r = scr.get_data_type(probe(b0, k, n))
                if r == 'signature':
                    c = 0
                elif r == 'key':
                    c = 1
                elif r == 'data-%d' % n:
                    c = 2
                elif r == 'other':
                    c = 3
                else:
                    c = 9              # anything else: no class of the model
                rows.append('(%d, %d, %d, %d)' % (b0, k, n, c))
    out = [HEADER, 'Definition data_type_probes : list (Z * Z * Z * Z) := %s.\n' % list_lit(rows)]
    return {'GenDataType.v': '\n'.join(out) + '\n'}
