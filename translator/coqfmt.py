"""Helpers to print Python values as Gallina terms."""


def byte_lit(b):
    return 'x%02x' % b


def bytes_lit(bs):
    return '[' + '; '.join(byte_lit(b) for b in bs) + ']'


def z_lit(n):
    return '(%d)' % n if n < 0 else '%d' % n


def string_lit(s):
    # Coq string literal: double the quotes; only ASCII is expected here
    s.encode('ascii')
    return '"' + s.replace('"', '""') + '"%string'


def ascii_bytes(s):
    return bytes_lit(s.encode('ascii'))


def list_lit(items):
    return '[' + '; '.join(items) + ']'


def bool_lit(b):
    return 'true' if b else 'false'


HEADER = '''From Coq Require Import ZArith List Bool String.
From Coq.Strings Require Import Byte.
Import ListNotations.
Open Scope Z_scope.
'''
