"""services/services.py, config/config.py -> GenService.v  (C20).
Constants and a few structural facts of the fail-over code, read from the AST of the working tree.
Fail-closed: a pattern that is no longer found raises (the translation aborts)."""
import ast, os, sys
from coqfmt import *


def _find_class(tree, name):
    for n in tree.body:
        if isinstance(n, ast.ClassDef) and n.name == name:
            return n
    raise ValueError('class %s not found' % name)


def _find_def(cls, name):
    for n in cls.body:
        if isinstance(n, ast.FunctionDef) and n.name == name:
            return n
    raise ValueError('def %s not found' % name)


def _timedelta_seconds(fn):
    for n in ast.walk(fn):
        if isinstance(n, ast.Call) and getattr(n.func, 'id', '') == 'timedelta':
            for kw in n.keywords:
                if kw.arg == 'seconds' and isinstance(kw.value, ast.Constant):
                    return int(kw.value.value)
    raise ValueError('timedelta(seconds=...) not found in %s' % fn.name)


def _le_thresholds(fn, var):
    out = []
    for n in ast.walk(fn):
        if isinstance(n, ast.Compare) and isinstance(n.left, ast.Name) and n.left.id == var and \
                len(n.ops) == 1 and isinstance(n.ops[0], ast.LtE) and isinstance(n.comparators[0], ast.Constant):
            out.append(int(n.comparators[0].value))
    if len(out) != 2:
        raise ValueError('expected two "%s <= const" tests in %s' % (var, fn.name))
    return out


def _raises_on_is_false(fn, var):
    """does the wrapper contain  `if <var> is False: raise ...` ?"""
    for n in ast.walk(fn):
        if isinstance(n, ast.If) and isinstance(n.test, ast.Compare) and isinstance(n.test.left, ast.Name) and \
                n.test.left.id == var and len(n.test.ops) == 1 and isinstance(n.test.ops[0], ast.Is) and \
                isinstance(n.test.comparators[0], ast.Constant) and n.test.comparators[0].value is False:
            if any(isinstance(s, ast.Raise) for s in n.body):
                return True
    return False


def _limit_branch(fn):
    """the `if len(self.errors) >= self.max_errors:` block of the exception handler: what happens without results"""
    for h in ast.walk(fn):
        if isinstance(h, ast.ExceptHandler):
            for n in ast.walk(h):
                if isinstance(n, ast.If) and isinstance(n.test, ast.Compare) and isinstance(n.test.ops[0], ast.GtE) and \
                        'max_errors' in ast.dump(n.test.comparators[0]) and 'errors' in ast.dump(n.test.left):
                    for s in ast.walk(n):
                        if isinstance(s, ast.Return) and isinstance(s.value, ast.Constant) and s.value.value is False:
                            return True
                    if any(isinstance(s, ast.Raise) for s in ast.walk(n)):
                        return False
                    raise ValueError('max_errors branch neither returns False nor raises')
    raise ValueError('max_errors test not found in the exception handler of _provider_execute')


# ---- the cache read paths: comparison operators, ORDER BY columns and loop shapes, as numbers
OPCODE = {'Eq': 0, 'NotEq': 1, 'Lt': 2, 'LtE': 3, 'Gt': 4, 'GtE': 5, 'Is': 6, 'IsNot': 7}


def _compare_op(fn, left, right):
    """code of the operator of the one comparison `left <op> right` inside fn (source text of both sides)"""
    found = []
    for n in ast.walk(fn):
        if isinstance(n, ast.Compare) and len(n.ops) == 1 and ast.unparse(n.left) == left and \
                ast.unparse(n.comparators[0]) == right:
            found.append(OPCODE[type(n.ops[0]).__name__])
    if len(found) != 1:
        raise ValueError('expected exactly one comparison "%s ? %s" in %s, found %d' % (left, right, fn.name, len(found)))
    return found[0]


def _order_by(fn):
    """the column lists of all .order_by(...) calls in fn; columns as 1 = block_height, 2 = index, 0 = anything else"""
    out = []
    for n in ast.walk(fn):
        if isinstance(n, ast.Call) and isinstance(n.func, ast.Attribute) and n.func.attr == 'order_by':
            out.append([{'DbCacheTransaction.block_height': 1, 'DbCacheTransaction.index': 2}.get(ast.unparse(a), 0)
                        for a in n.args])
    return out


def _stmt_index(body, pred):
    for i, st in enumerate(body):
        if pred(st):
            return i
    return -1


def _append_then_reset(fn, lst, var):
    """in the loop `for d in ..: <lst>.append(d); if d.txid == <var>: <lst> = []` the append comes first (1) or not (0)"""
    for n in ast.walk(fn):
        if isinstance(n, ast.For):
            ia = _stmt_index(n.body, lambda st: isinstance(st, ast.Expr) and ast.unparse(st.value).startswith(lst + '.append('))
            ir = _stmt_index(n.body, lambda st: isinstance(st, ast.If) and ast.unparse(st.test).endswith('== ' + var) and
                             any(isinstance(x, ast.Assign) and ast.unparse(x) == lst + ' = []' for x in st.body))
            if ia >= 0 and ir >= 0:
                return 1 if ia < ir else 0
    raise ValueError('append/reset loop over %s not found in %s' % (lst, fn.name))


def _lit_z_list(l):
    return '[' + '; '.join(z_lit(x) for x in l) + ']'


def cache_read_facts(svc, cache):
    cgt = _find_def(cache, 'gettransactions')
    cgu = _find_def(cache, 'getutxos')
    cbt = _find_def(cache, 'getblocktransactions')
    sgt = _find_def(svc, 'gettransactions')
    sgu = _find_def(svc, 'getutxos')
    sgb = _find_def(svc, 'getblock')
    out = ['(* Cache.gettransactions / getutxos / getblocktransactions and their callers: operators (0 ==, 1 !=, 2 <, 3 <=, 4 >, '
           '5 >=, 6 is, 7 is not), ORDER BY columns (1 block_height, 2 index) *)']
    facts = [
        ('svc_cgt_after_block_op', _compare_op(cgt, 'DbCacheTransaction.block_height', 'after_tx.block_height')),
        ('svc_cgt_last_block_op', _compare_op(cgt, 'DbCacheTransaction.block_height', 'db_addr.last_block')),
        ('svc_cgt_limit_op', _compare_op(cgt, 'len(txs)', 'limit')),
        ('svc_cgt_reset_op', _compare_op(cgt, 'd.txid', 'after_txid')),
        ('svc_cgt_append_before_reset', _append_then_reset(cgt, 'db_txs2', 'after_txid')),
        ('svc_cgu_unspent_op', _compare_op(cgu, 'db_utxo.spent', 'False')),
        ('svc_cgu_unknown_op', _compare_op(cgu, 'db_utxo.spent', 'None')),
        ('svc_cgu_reset_op', _compare_op(cgu, 'db_utxo.txid', 'after_txid')),
        ('svc_cgu_output_filter_op', _compare_op(cgu, 'DbCacheTransactionNode.is_input', 'False')),
        ('svc_cbt_from_op', _compare_op(cbt, 'DbCacheTransaction.index', 'n_from')),
        ('svc_cbt_to_op', _compare_op(cbt, 'DbCacheTransaction.index', 'n_to')),
        ('svc_cbt_height_op', _compare_op(cbt, 'DbCacheTransaction.block_height', 'height')),
        ('svc_sgt_page_full_op', _compare_op(sgt, 'len(txs_cache)', 'limit')),
        ('svc_sgt_uptodate_op', _compare_op(sgt, 'db_addr.last_block', 'self.blockcount()')),
        ('svc_sgt_incomplete_op', _compare_op(sgt, 'len(txs)', 'limit')),
        ('svc_sgt_provider_false_op', _compare_op(sgt, 'txs', 'False')),
        ('svc_sgt_unconfirmed_op', _compare_op(sgt, 't.confirmations', '0')),
        ('svc_sgu_incomplete_op', _compare_op(sgu, 'len(utxos)', 'limit')),
        ('svc_sgb_last_page_op', _compare_op(sgb, 'page * limit', 'block.tx_count')),
    ]
    for name, v in facts:
        out.append('Definition %s : Z := %s.' % (name, z_lit(v)))
    ob = _order_by(cgt)
    if len(ob) != 2:
        raise ValueError('expected two order_by calls in Cache.gettransactions')
    out.append('Definition svc_cgt_order_after : list Z := %s.' % _lit_z_list(ob[0]))
    out.append('Definition svc_cgt_order_all : list Z := %s.' % _lit_z_list(ob[1]))
    ob = _order_by(cgu)
    if len(ob) != 1:
        raise ValueError('expected one order_by call in Cache.getutxos')
    out.append('Definition svc_cgu_order : list Z := %s.' % _lit_z_list(ob[0]))
    ob = _order_by(cbt)
    if len(ob) > 1:
        raise ValueError('more than one order_by call in Cache.getblocktransactions')
    out.append('(* Cache.getblocktransactions: ORDER BY columns ([] = none: rows come back in filing order) *)')
    out.append('Definition svc_cbt_order : list Z := %s.' % _lit_z_list(ob[0] if ob else []))
    return out


def generate(repo):
    sys.path.insert(0, repo)
    import bitcoinlib.config.config as cfg
    src = open(os.path.join(repo, 'bitcoinlib', 'services', 'services.py'), encoding='utf8').read()
    tree = ast.parse(src)
    svc, cache = _find_class(tree, 'Service'), _find_class(tree, 'Cache')
    out = [HEADER]
    out.append('Definition svc_BLOCK_COUNT_CACHE_TIME : Z := %s.' % z_lit(int(cfg.BLOCK_COUNT_CACHE_TIME)))
    out.append('Definition svc_SERVICE_MAX_ERRORS : Z := %s.' % z_lit(int(cfg.SERVICE_MAX_ERRORS)))
    out.append('Definition svc_blockcount_ttl : Z := %s.' % z_lit(_timedelta_seconds(_find_def(cache, 'store_blockcount'))))
    out.append('Definition svc_fee_ttl : Z := %s.' % z_lit(_timedelta_seconds(_find_def(cache, 'store_estimated_fee'))))
    a = _le_thresholds(_find_def(cache, 'estimatefee'), 'blocks')
    b = _le_thresholds(_find_def(cache, 'store_estimated_fee'), 'blocks')
    if a != b:
        raise ValueError('fee classes of Cache.estimatefee and Cache.store_estimated_fee differ')
    out.append('Definition svc_fee_high_max_blocks : Z := %s.' % z_lit(a[0]))
    out.append('Definition svc_fee_medium_max_blocks : Z := %s.' % z_lit(a[1]))
    out.append('(* _provider_execute, max_errors branch without any result: `return False` (true) or raise (false) *)')
    out.append('Definition svc_limit_returns_false : bool := %s.' % bool_lit(_limit_branch(_find_def(svc, '_provider_execute'))))
    out.append('(* wrappers that turn a False from _provider_execute into ServiceError *)')
    out.append('Definition svc_getbalance_raises_on_false : bool := %s.' %
               bool_lit(_raises_on_is_false(_find_def(svc, 'getbalance'), 'balance')))
    out.append('Definition svc_getutxos_raises_on_false : bool := %s.' %
               bool_lit(_raises_on_is_false(_find_def(svc, 'getutxos'), 'utxos')))
    out += cache_read_facts(svc, cache)
    return {'GenService.v': '\n'.join(out) + '\n'}
