"""services/services.py, config/config.py -> GenService.v  (C20).
Constants and a few structural facts of the fail-over code, read from the AST of the working tree.
Fail-closed: a pattern that is no longer found raises (the translation aborts)."""
import ast, os, sys
from coqfmt import *


def _find_class(tree, name):
    for n in tree.body:
        if isinstance(n, ast.ClassDef) and n.name == name:
            return n
    raise ValueError('class %s not found' % name)


def _find_def(cls, name):
    for n in cls.body:
        if isinstance(n, ast.FunctionDef) and n.name == name:
            return n
    raise ValueError('def %s not found' % name)


def _timedelta_seconds(fn):
    for n in ast.walk(fn):
        if isinstance(n, ast.Call) and getattr(n.func, 'id', '') == 'timedelta':
            for kw in n.keywords:
                if kw.arg == 'seconds' and isinstance(kw.value, ast.Constant):
                    return int(kw.value.value)
    raise ValueError('timedelta(seconds=...) not found in %s' % fn.name)


def _le_thresholds(fn, var):
    out = []
    for n in ast.walk(fn):
        if isinstance(n, ast.Compare) and isinstance(n.left, ast.Name) and n.left.id == var and \
                len(n.ops) == 1 and isinstance(n.ops[0], ast.LtE) and isinstance(n.comparators[0], ast.Constant):
            out.append(int(n.comparators[0].value))
    if len(out) != 2:
        raise ValueError('expected two "%s <= const" tests in %s' % (var, fn.name))
    return out


def _raises_on_is_false(fn, var):
    """does the wrapper contain  `if <var> is False: raise ...` ?"""
    for n in ast.walk(fn):
        if isinstance(n, ast.If) and isinstance(n.test, ast.Compare) and isinstance(n.test.left, ast.Name) and \
                n.test.left.id == var and len(n.test.ops) == 1 and isinstance(n.test.ops[0], ast.Is) and \
                isinstance(n.test.comparators[0], ast.Constant) and n.test.comparators[0].value is False:
            if any(isinstance(s, ast.Raise) for s in n.body):
                return True
    return False


def _limit_branch(fn):
    """the `if len(self.errors) >= self.max_errors:` block of the exception handler: what happens without results"""
    for h in ast.walk(fn):
        if isinstance(h, ast.ExceptHandler):
            for n in ast.walk(h):
                if isinstance(n, ast.If) and isinstance(n.test, ast.Compare) and isinstance(n.test.ops[0], ast.GtE) and \
                        'max_errors' in ast.dump(n.test.comparators[0]) and 'errors' in ast.dump(n.test.left):
                    for s in ast.walk(n):
                        if isinstance(s, ast.Return) and isinstance(s.value, ast.Constant) and s.value.value is False:
                            return True
                    if any(isinstance(s, ast.Raise) for s in ast.walk(n)):
                        return False
                    raise ValueError('max_errors branch neither returns False nor raises')
    raise ValueError('max_errors test not found in the exception handler of _provider_execute')


def generate(repo):
    sys.path.insert(0, repo)
    import bitcoinlib.config.config as cfg
    src = open(os.path.join(repo, 'bitcoinlib', 'services', 'services.py'), encoding='utf8').read()
    tree = ast.parse(src)
    svc, cache = _find_class(tree, 'Service'), _find_class(tree, 'Cache')
    out = [HEADER]
    out.append('Definition svc_BLOCK_COUNT_CACHE_TIME : Z := %s.' % z_lit(int(cfg.BLOCK_COUNT_CACHE_TIME)))
    out.append('Definition svc_SERVICE_MAX_ERRORS : Z := %s.' % z_lit(int(cfg.SERVICE_MAX_ERRORS)))
    out.append('Definition svc_blockcount_ttl : Z := %s.' % z_lit(_timedelta_seconds(_find_def(cache, 'store_blockcount'))))
    out.append('Definition svc_fee_ttl : Z := %s.' % z_lit(_timedelta_seconds(_find_def(cache, 'store_estimated_fee'))))
    a = _le_thresholds(_find_def(cache, 'estimatefee'), 'blocks')
    b = _le_thresholds(_find_def(cache, 'store_estimated_fee'), 'blocks')
    if a != b:
        raise ValueError('fee classes of Cache.estimatefee and Cache.store_estimated_fee differ')
    out.append('Definition svc_fee_high_max_blocks : Z := %s.' % z_lit(a[0]))
    out.append('Definition svc_fee_medium_max_blocks : Z := %s.' % z_lit(a[1]))
    out.append('(* _provider_execute, max_errors branch without any result: `return False` (true) or raise (false) *)')
    out.append('Definition svc_limit_returns_false : bool := %s.' % bool_lit(_limit_branch(_find_def(svc, '_provider_execute'))))
    out.append('(* wrappers that turn a False from _provider_execute into ServiceError *)')
    out.append('Definition svc_getbalance_raises_on_false : bool := %s.' %
               bool_lit(_raises_on_is_false(_find_def(svc, 'getbalance'), 'balance')))
    out.append('Definition svc_getutxos_raises_on_false : bool := %s.' %
               bool_lit(_raises_on_is_false(_find_def(svc, 'getutxos'), 'utxos')))
    return {'GenService.v': '\n'.join(out) + '\n'}
