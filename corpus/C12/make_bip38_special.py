"""One-off generator of corpus/C12/bip38_special.json (FROZEN afterwards; the check never runs this file).

BIP38 (non-EC-multiplied) texts of SPECIAL secrets - last byte 01 / 0101 / 010101 / 00, first byte 00 / 80, leading zero
bytes, 1, 2, n-1, secrets that look like a public key - compressed and uncompressed, on several networks.  The texts are
produced by the INDEPENDENT reference encryptor of harness/props/c15.py (BIP text, FIPS-197 AES, hashlib.scrypt, address
version bytes of the frozen table harness/spec_networks.py); nothing of /repo is imported.  Every text is decrypted again
with the reference decryptor before it is written.

    cd /verif/harness && /venv/bin/python ../corpus/C12/make_bip38_special.py
"""
import json, os, sys

HERE = os.path.dirname(os.path.abspath(__file__))
sys.path.insert(0, os.path.join(HERE, '..', '..', 'harness'))
import spec_networks as SN                      # noqa: E402
from props import c15                           # noqa: E402

N = c15.CN
SECRETS = [
    ('last01', '5f3a9c0e7d1b24686a8c0e2f4153759799bbddff0123456789abcdef13579b01'),
    ('last01_b', 'c4e1d7a9035b6f8812ce44f0a6b7d91e3f20517c8a9be6d4f3a1b2c3d4e5f601'),
    ('lead00_last0101', '00a7c3e1f5092b4d6f81133557790000000000000000000000000000000101'.rjust(64, '0')),
    ('first80_last01', '80f1e2d3c4b5a69788796a5b4c3d2e1f00112233445566778899aabbccddee01'),
    ('last010101', '7b2d9e4f6a8c1e305274969bbddf01234567fedcba9876543210aabbcc010101'),
    ('lead000000_last00', '000000e3b1c5d7f9a2b4c6d8e0f1a3b5c7d9ebfd0f21436587a9cbed0f214300'),
    ('first80', '8000000000000000000000000000000000000000000000000000000000000003'),
    ('one', '%064x' % 1),
    ('two', '%064x' % 2),
    ('n_minus_1', '%064x' % (N - 1)),
    ('pubkeylike_last01', '02c6047f9441ed7d6d3045406e95c07cd85c778e4b8cef3ca7abac09b95c7001'),
    ('x0100', '1d2c3b4a596877869504a3b2c1d0e0f00f1e2d3c4b5a69788796a5b4c3d20100'),
    ('ordinary', '1b4c9f7a3e5d21068a7c4be0d3f9152677aa01c3e8f0d2b4968705a1c2e3f4d5'),
]
NETS = ['bitcoin', 'testnet', 'litecoin', 'dogecoin', 'bitcoin', 'litecoin_testnet', 'regtest']
PWS = ['C12 round trip', 'a', 'pw 01', 'Satoshi', 'x_Y-0', '01', 'TestingOneTwoThree', ' ']

out = []
i = 0
for tag, sh in SECRETS:
    assert len(sh) == 64, (tag, len(sh))
    k = int(sh, 16)
    assert 0 < k < N
    for comp in (True, False):
        net = NETS[i % len(NETS)]
        pw = PWS[(i * 3 + 1) % len(PWS)]
        i += 1
        pa, _, _ = SN.address_prefixes(net, SN.FROZEN)
        text = c15.ref_encrypt(pa, comp, k, pw.encode('utf-8'))
        back = c15.ref_decrypt(text, pw.encode('utf-8'), pa)
        assert back is not None and back[0] == k and back[1] == comp, (tag, comp)
        out.append({'tag': tag, 'network': net, 'secret': sh, 'compressed': comp, 'password': pw, 'bip38': text})

with open(os.path.join(HERE, 'bip38_special.json'), 'w') as f:
    json.dump(out, f, indent=1)
    f.write('\n')
print(len(out), 'entries')
